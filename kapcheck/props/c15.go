package props

import (
	"fmt"
	"go/ast"
	"go/token"
	"go/types"
	"regexp"
	"strings"

	"golang.org/x/tools/go/packages"

	"kapcheck/an"
	"kapcheck/core"
)

func init() {
	register(&Property{
		ID:       "C15",
		Patterns: []string{"./services/storage", "./services/storage/storagetest"},
		Run:      runC15,
		Explanation: "The indexed store's consistency as structure: every multi-key mutation runs in one Update closure, and inside every transaction body a storage error is neither discarded nor answered with nil (a nil return commits); DoUpdate/DoView pair Begin with a deferred Rollback and commit only after the body returned nil; " +
			"putTx equals its exists/replace reference table and maintains every index (put new key, delete old key exactly when replacing and the key changed), DeleteTx removes the data key and every index key, RebuildTx clears and refills every index — all loops over the indexes run to completion; " +
			"Create/Put/Replace pass their documented flags; every key handed to the transaction comes from dataKey/indexKey (or a listed entry); both list forms go through DoListFunc, whose offset counts matching entries only; the Bolt Exists is an exact-key lookup. " +
			"NOT decided: agreement with a map model over all histories, Bolt's own atomicity and ordering, pagination arithmetic beyond the counter's meaning.",
		Assumptions: []string{"bbolt commits a transaction atomically and rolls it back otherwise"},
	})
}

func runC15(c *core.Ctx) {
	c15BucketPath(c, "C15.bucketpath")
	if sp := c.P.Pkg("services/storage"); sp != nil {
		c15Rules5(c, sp)
	}
	c15TxHandle(c)
	c.Rule("C15.txerr", "A10: in every transaction body of services/storage an error of tx.Put/Delete/Get/List/Exists is not discarded and, where found non-nil, makes the body return a non-nil error")
	c.Rule("C15.txwrap", "A2: DoUpdate begins a transaction, defers Rollback, runs the body, returns its error without committing, commits only after a nil error; DoView defers Rollback and never commits")
	c.Rule("C15.put", "A1: putTx: exists∧¬allowReplace ⇒ ErrObjectExists without any write; ¬exists∧requireReplace ⇒ ErrNoObjectExists without any write; otherwise data Put, then per index: Put(newKey) iff ¬replacing ∨ oldKey≠newKey, and Delete(oldKey) after it iff replacing ∧ oldKey≠newKey")
	c.Rule("C15.loops", "A2: the loops over s.indexes in putTx, DeleteTx, RebuildTx (and over the entries in deleteIndex) are left only by returning an error: no break/continue, no success return inside")
	c.Rule("C15.flags", "A7: Create/CreateTx call put(…, false, false), Put/PutTx put(…, true, false), Replace/ReplaceTx put(…, true, true); put runs putTx inside one Update closure")
	c.Rule("C15.keys", "A3: every key given to tx.Put/Get/Delete/Exists in indexed.go is dataKey(id), indexKey(index, value) or the Key of a listed entry; the data key is dataKey(o.ObjectID()) of the object written")
	c.Rule("C15.list", "A2: IndexedStore.list hands the index entries, the pattern's match function, offset and a limit to DoListFunc on every non-error path (no path that bypasses matching or paging)")
	c.Rule("C15.dolist", "A1: DoListFunc skips non-matching entries before counting; the number compared with offset is a counter incremented once per matching entry; an entry is appended iff it matches and lies beyond the offset; the loop stops when size entries were collected")
	c.Rule("C15.exists", "A1: Bolt.exists answers true only from an exact-key lookup (bucket.Get(key) != nil or cursor key == key); GetTx maps ¬exists to ErrNoObjectExists before reading")

	c.Rule("C15.seek", "A1: bolt's Cursor.Seek lands on the next key when the sought one is absent: every point use of its result (a Delete/DeleteBucket/Put that follows) happens only on paths where the returned key was compared equal to the sought key; a scan that starts with Seek keeps a HasPrefix test of the returned key in its loop condition")

	c.Rule("C15.keyshape", "A3: F40: dataKey and indexKey return <prefix> + <last parameter>: the object-supplied part (ID, index value) is appended as it is — not through path.Join/Clean or another many-to-one function — and used nowhere else; every directory scan tx.List(p) in IndexedStore scans exactly the prefix one of the two builders prepends")

	pkg := c.P.Pkg("services/storage")
	if pkg == nil {
		c.Undecided("C15.txerr", "anchor:services/storage", token.NoPos, "package not loaded")
		return
	}
	n := ruleTxErr(c, "C15.txerr", pkg, map[string]string{})
	c.Floor("C15.txerr", "transaction-method error sites", n, 15)
	c15TxWrap(c, pkg)
	c15Put(c, pkg)
	c15Loops(c, pkg)
	c15Flags(c, pkg)
	c15Keys(c, pkg)
	c15List(c, pkg)
	c15DoList(c, pkg)
	c15Exists(c, pkg)
	c15Seek(c, pkg)
	c15KeyShape(c, pkg)
}

func c15Seek(c *core.Ctx, pkg *packages.Package) { c15SeekAs(c, pkg, "C15.seek") }

func c15SeekAs(c *core.Ctx, pkg *packages.Package, rule string) {
	info := pkg.TypesInfo
	nPoint, nScan := 0, 0
	for _, fn := range core.AllFuncs(pkg) {
		if fn.Decl.Body == nil {
			continue
		}
		parents := parentMap(fn.Decl.Body)
		var point []*ast.CallExpr
		ast.Inspect(fn.Decl.Body, func(n ast.Node) bool {
			call, ok := n.(*ast.CallExpr)
			if !ok {
				return true
			}
			f := core.Callee(info, call)
			if f == nil || f.Name() != "Seek" || core.RecvTypeName(f) != "Cursor" {
				return true
			}
			// scan form: the Seek is the init of a for statement
			var loop *ast.ForStmt
			for p := parents[call]; p != nil; p = parents[p] {
				if fs, ok := p.(*ast.ForStmt); ok && fs.Init != nil && fs.Init.Pos() <= call.Pos() && call.End() <= fs.Init.End() {
					loop = fs
				}
			}
			if loop != nil {
				nScan++
				cond := ""
				if loop.Cond != nil {
					cond = types.ExprString(loop.Cond)
				}
				sought := types.ExprString(call.Args[0])
				c.Check(strings.Contains(cond, "HasPrefix(") && strings.Contains(cond, ", "+sought+")"), rule, fn.Name()+"#scan", call.Pos(), "a scan started with Seek(%s) must stop at the first key without that prefix (loop condition: %s)", sought, cond)
				return true
			}
			point = append(point, call)
			return true
		})
		if len(point) == 0 {
			continue
		}
		nPoint += len(point)
		eng := &an.Engine{Prog: c.P,
			TrackCall: func(call *ast.CallExpr, callee *types.Func) string {
				if callee == nil {
					return ""
				}
				switch callee.Name() {
				case "Seek":
					return "Seek"
				case "Delete", "DeleteBucket", "Put":
					if rn := core.RecvTypeName(callee); rn == "Bucket" || rn == "Cursor" {
						return "mutate"
					}
				}
				return ""
			},
			Classify: func(a an.Atom) (string, bool) {
				if a.Op == token.EQL && (strings.Contains(a.L, ".Seek(") != strings.Contains(a.R, ".Seek(")) && (strings.Contains(a.L, ").0") || strings.Contains(a.R, ").0")) && a.R != "nil" && a.L != "nil" {
					return "exact", false
				}
				if strings.Contains(a.Key, "bytes.Equal(") && strings.Contains(a.Key, ".Seek(") {
					return "exact", false
				}
				return "", false
			}}
		paths, err := eng.Run(fn)
		if err != nil {
			c.Undecided(rule, fn.Name(), fn.Decl.Pos(), "%v", err)
			continue
		}
		good := len(paths) > 0
		for _, p := range paths {
			if !p.Has("Seek") || !p.Has("mutate") || p.Index("Seek") > p.Index("mutate") {
				continue
			}
			if v, dec := p.Assign()["exact"]; !dec || !v {
				good = false
				c.Fail(rule, fn.Name()+"#exact", p.Find("mutate").Pos, "a key is deleted or written after Cursor.Seek without the returned key having been compared equal to the sought one (%s): deleting an absent key removes its lexicographic successor — another object's record, or the next topic's whole bucket", p.Cond())
			}
		}
		if good {
			c.Ok(rule, fn.Name()+"#exact")
		}
	}
	c.Floor(rule, "point uses of Cursor.Seek", nPoint, 1)
	c.Floor(rule, "scans started with Cursor.Seek", nScan, 1)
}

func c15TxWrap(c *core.Ctx, pkg *packages.Package) {
	info := pkg.TypesInfo
	for _, m := range []struct {
		name   string
		commit bool
	}{{"DoUpdate", true}, {"DoView", false}} {
		fn := c.Need("C15.txwrap", "services/storage", "", m.name)
		if fn == nil {
			continue
		}
		body := an.ParamName(fn.Decl.Type, 1)
		eng := &an.Engine{Prog: c.P,
			TrackCall: func(call *ast.CallExpr, callee *types.Func) string {
				if id, ok := ast.Unparen(call.Fun).(*ast.Ident); ok && id.Name == body {
					return "body"
				}
				if callee != nil {
					switch callee.Name() {
					case "BeginTx", "BeginReadOnlyTx":
						return "begin"
					case "Commit":
						return "commit"
					}
				}
				return ""
			},
			Classify: func(a an.Atom) (string, bool) {
				if k, ok := an.ErrNilAtom(info, a); ok {
					switch {
					case strings.HasPrefix(k, body+"("):
						return "bodyErr", true
					case strings.Contains(k, ".Begin"):
						return "beginErr", true
					}
				}
				return "", false
			}}
		paths, err := eng.Run(fn)
		if err != nil {
			c.Undecided("C15.txwrap", m.name, fn.Decl.Pos(), "%v", err)
			continue
		}
		an.CheckTable(c, "C15.txwrap", m.name, paths, an.Table{Atoms: []string{"beginErr", "bodyErr"},
			Outcome: func(p *an.Path) string {
				var s []string
				for _, e := range p.Events {
					switch {
					case e.Kind == "defer":
						s = append(s, "defer:"+e.Name)
					case e.Kind == "call":
						s = append(s, e.Name)
					}
				}
				return strings.Join(s, ",")
			},
			Expect: func(a map[string]bool) string {
				if a["beginErr"] {
					return "begin"
				}
				if !m.commit {
					return "begin,body,defer:Rollback"
				}
				if a["bodyErr"] {
					return "begin,body,defer:Rollback"
				}
				return "begin,body,commit,defer:Rollback"
			}})
		// the body's error is what is returned on the failure path
		for _, p := range paths {
			if a := p.Assign(); a["bodyErr"] && m.commit {
				c.Check(len(p.Rets) == 1 && strings.HasPrefix(p.Rets[0], body+"("), "C15.txwrap", m.name+"#returns-body-error", p.RetPos, "the body's error is not what %s returns: %v", m.name, p.Rets)
			}
		}
	}
}

func c15Put(c *core.Ctx, pkg *packages.Package) {
	info := pkg.TypesInfo
	fn := c.Need("C15.put", "services/storage", "IndexedStore", "putTx")
	if fn == nil {
		return
	}
	allow, require := an.ParamName(fn.Decl.Type, 2), an.ParamName(fn.Decl.Type, 3)
	eng := &an.Engine{Prog: c.P,
		TrackCall: func(call *ast.CallExpr, callee *types.Func) string {
			if callee == nil {
				return ""
			}
			if sel, ok := call.Fun.(*ast.SelectorExpr); ok {
				if s, ok := info.Selections[sel]; ok && isTxType(s.Recv()) {
					return callee.Name()
				}
			}
			return ""
		},
		Classify: func(a an.Atom) (string, bool) {
			k := a.Key
			switch {
			case a.Op == token.EQL && an.LastCall(a.L) == "GetTx" && strings.HasSuffix(a.L, ").1") && a.R == "nil":
				return "exists", false
			case a.Op == token.EQL && (an.LastCall(a.L) == "GetTx" || an.LastCall(a.R) == "GetTx") && strings.Contains(k, "ErrNoObjectExists"):
				return "missing", false
			case k == allow:
				return "allow", false
			case k == require:
				return "require", false
			case a.Op == token.EQL && strings.Contains(a.L, ".indexKey(") && strings.Contains(a.R, ".indexKey("):
				return "samekey", false
			}
			if kk, ok := an.ErrNilAtom(info, a); ok {
				if strings.Contains(kk, ".MarshalBinary(") || strings.Contains(kk, ".ValueOf(") || strings.Contains(kk, ".Put(") || strings.Contains(kk, ".Delete(") {
					return "", false
				}
			}
			return "", false
		}}
	paths, err := eng.Run(fn)
	if err != nil {
		c.Undecided("C15.put", "IndexedStore.putTx", fn.Decl.Pos(), "%v", err)
		return
	}
	// Only paths without any step error are compared with the table (error paths are C15.txerr's).
	noStepErr := func(p *an.Path) bool {
		for _, l := range p.Lits {
			if l.Name == "" && strings.HasSuffix(l.Key, " == nil") && !l.Val {
				return false
			}
		}
		return true
	}
	an.CheckTable(c, "C15.put", "IndexedStore.putTx", paths, an.Table{Atoms: []string{"exists", "missing", "allow", "require", "samekey"},
		Relevant: noStepErr,
		Outcome: func(p *an.Path) string {
			var s []string
			inLoop := false
			for _, e := range p.Events {
				switch {
				case e.Kind == "loop":
					inLoop = true
					s = append(s, "each{")
				case e.Kind == "endloop":
					inLoop = false
					s = append(s, "}")
				case e.Kind == "break" || e.Kind == "continue":
					s = append(s, e.Kind)
				case e.Name == "Put" && !inLoop:
					s = append(s, "putData")
				case e.Name == "Put" && inLoop:
					s = append(s, "putNew")
				case e.Name == "Delete" && inLoop:
					s = append(s, "delOld")
				case e.Name == "Delete":
					s = append(s, "delete?")
				}
			}
			r := "err"
			if len(p.Rets) == 1 {
				switch {
				case p.Rets[0] == "nil":
					r = "nil"
				case strings.HasSuffix(p.Rets[0], "ErrObjectExists"):
					r = "ErrObjectExists"
				case strings.Contains(p.Rets[0], ".GetTx("):
					r = "geterr"
				}
			}
			return strings.Join(s, ",") + "→" + r
		},
		Expect: func(a map[string]bool) string {
			if !a["exists"] {
				// GetTx failed: with ErrNoObjectExists (missing) and no replace required we go on, otherwise the error is returned
				if !a["missing"] || a["require"] {
					return "→geterr"
				}
				return "putData,each{,putNew,}→nil"
			}
			if !a["allow"] {
				return "→ErrObjectExists"
			}
			if a["samekey"] {
				return "putData,each{,}→nil"
			}
			return "putData,each{,putNew,delOld,}→nil"
		}})
	// what is written where (names by role: receiver, transaction parameter, object parameter)
	rv := an.RecvVarName(fn.Decl)
	txP, oP := an.ParamName(fn.Decl.Type, 0), an.ParamName(fn.Decl.Type, 1)
	for _, p := range paths {
		inLoop := false
		for _, e := range p.Events {
			switch {
			case e.Kind == "loop":
				inLoop = true
			case e.Kind == "endloop":
				inLoop = false
			case e.Name == "Put" && !inLoop:
				c.Check(len(e.Args) == 2 && strings.HasSuffix(e.Args[0], ".dataKey("+oP+".ObjectID())") && strings.Contains(e.Args[1], ".MarshalBinary().0"), "C15.put", "putTx#data", e.Pos, "the data Put must store o.MarshalBinary() under dataKey(o.ObjectID()); stores %v", e.Args)
			case e.Name == "Put" && inLoop:
				c.Check(len(e.Args) == 2 && strings.Contains(e.Args[0], ".indexKey(") && strings.Contains(e.Args[0], ".ValueOf("+oP+")") && e.Args[1] == "[]byte("+oP+".ObjectID())", "C15.put", "putTx#index-new", e.Pos, "the index Put must store the object id under indexKey(idx.Name, idx.ValueOf(o)); stores %v", e.Args)
			case e.Name == "Delete" && inLoop:
				c.Check(len(e.Args) == 1 && strings.Contains(e.Args[0], ".indexKey(") && strings.Contains(e.Args[0], ".ValueOf("+rv+".GetTx("+txP+", "+oP+".ObjectID()).0"+")"), "C15.put", "putTx#index-old", e.Pos, "the index Delete must remove indexKey(idx.Name, idx.ValueOf(old)); removes %v", e.Args)
			}
		}
	}
}

func c15Loops(c *core.Ctx, pkg *packages.Package) {
	for _, m := range []struct{ name, over string }{{"putTx", ".indexes"}, {"DeleteTx", ".indexes"}, {"RebuildTx", ".indexes"}, {"deleteIndex", "entries"}} {
		fn := c.Need("C15.loops", "services/storage", "IndexedStore", m.name)
		if fn == nil {
			continue
		}
		n := 0
		over := m.over
		if over == "entries" {
			// the variable holding the listed entries: first result of the tx.List call
			ast.Inspect(fn.Decl.Body, func(nd ast.Node) bool {
				if as, ok := nd.(*ast.AssignStmt); ok && len(as.Lhs) == 2 && len(as.Rhs) == 1 {
					if call, ok := as.Rhs[0].(*ast.CallExpr); ok {
						if sel, ok := call.Fun.(*ast.SelectorExpr); ok && sel.Sel.Name == "List" {
							over = types.ExprString(as.Lhs[0])
						}
					}
				}
				return true
			})
		}
		ast.Inspect(fn.Decl.Body, func(nd ast.Node) bool {
			rs, ok := nd.(*ast.RangeStmt)
			if !ok || !strings.HasSuffix(types.ExprString(rs.X), over) {
				return true
			}
			n++
			early := ""
			ast.Inspect(rs.Body, func(x ast.Node) bool {
				switch y := x.(type) {
				case *ast.FuncLit:
					return false
				case *ast.BranchStmt:
					early = y.Tok.String()
				case *ast.ReturnStmt:
					// returning nil (success) from inside the loop skips the remaining indexes
					if len(y.Results) >= 1 && types.ExprString(y.Results[len(y.Results)-1]) == "nil" {
						early = "return nil"
					}
				case *ast.RangeStmt:
					if y != rs {
						return false // inner loops are judged on their own
					}
				}
				return true
			})
			c.Check(early == "", "C15.loops", "IndexedStore."+m.name+"#"+strings.TrimPrefix(m.over, "."), rs.Pos(), "the loop over %s is left by `%s`: the remaining indexes are not maintained and the index no longer lists exactly the stored objects", m.over, early)
			return true
		})
		if n == 0 {
			c.Fail("C15.loops", "IndexedStore."+m.name+"#"+strings.TrimPrefix(m.over, "."), fn.Decl.Pos(), "no loop over %s found", m.over)
		}
	}
}

func c15Flags(c *core.Ctx, pkg *packages.Package) {
	info := pkg.TypesInfo
	want := map[string][2]string{"Create": {"false", "false"}, "CreateTx": {"false", "false"}, "Put": {"true", "false"}, "PutTx": {"true", "false"}, "Replace": {"true", "true"}, "ReplaceTx": {"true", "true"}}
	for name, w := range want {
		fn := c.Need("C15.flags", "services/storage", "IndexedStore", name)
		if fn == nil {
			continue
		}
		good := false
		got := ""
		ast.Inspect(fn.Decl.Body, func(nd ast.Node) bool {
			if call, ok := nd.(*ast.CallExpr); ok {
				if f := core.Callee(info, call); f != nil && (f.Name() == "put" || f.Name() == "putTx") && len(call.Args) >= 2 {
					a := types.ExprString(call.Args[len(call.Args)-2])
					r := types.ExprString(call.Args[len(call.Args)-1])
					got = a + "," + r
					good = a == w[0] && r == w[1]
				}
			}
			return true
		})
		c.Check(good, "C15.flags", "IndexedStore."+name, fn.Decl.Pos(), "%s must pass (allowReplace=%s, requireReplace=%s); passes (%s)", name, w[0], w[1], got)
	}
	for _, name := range []string{"put", "Delete", "Rebuild"} {
		fn := c.Need("C15.flags", "services/storage", "IndexedStore", name)
		if fn == nil {
			continue
		}
		inUpdate := false
		ast.Inspect(fn.Decl.Body, func(nd ast.Node) bool {
			if call, ok := nd.(*ast.CallExpr); ok {
				if f := core.Callee(info, call); f != nil && f.Name() == "Update" && len(call.Args) == 1 {
					if _, ok := call.Args[0].(*ast.FuncLit); ok {
						inUpdate = true
					}
				}
			}
			return true
		})
		c.Check(inUpdate, "C15.flags", "IndexedStore."+name+"#one-update", fn.Decl.Pos(), "%s must run its multi-key mutation inside one store.Update closure", name)
	}
}

func c15Keys(c *core.Ctx, pkg *packages.Package) {
	info := pkg.TypesInfo
	n := 0
	for _, f := range core.AllFuncs(pkg) {
		if core.RecvName(f.Decl) != "IndexedStore" {
			continue
		}
		// local key variables resolved one step
		def := map[types.Object]ast.Expr{}
		ast.Inspect(f.Decl.Body, func(nd ast.Node) bool {
			if as, ok := nd.(*ast.AssignStmt); ok && len(as.Lhs) == len(as.Rhs) {
				for i, l := range as.Lhs {
					if id, ok := l.(*ast.Ident); ok {
						if obj := info.Defs[id]; obj != nil {
							def[obj] = as.Rhs[i]
						}
					}
				}
			} else if ok && len(as.Rhs) == 1 && len(as.Lhs) == 2 {
				// v, err := f(…) / v, err = f(…): v is the first result of the call
				if id, ok := as.Lhs[0].(*ast.Ident); ok {
					obj := info.Defs[id]
					if obj == nil {
						obj = info.Uses[id]
					}
					if obj != nil {
						def[obj] = as.Rhs[0]
					}
				}
			}
			return true
		})
		ast.Inspect(f.Decl.Body, func(nd ast.Node) bool {
			call, ok := nd.(*ast.CallExpr)
			if !ok || len(call.Args) == 0 {
				return true
			}
			sel, ok := call.Fun.(*ast.SelectorExpr)
			if !ok {
				return true
			}
			s, ok := info.Selections[sel]
			if !ok || !isTxType(s.Recv()) {
				return true
			}
			switch sel.Sel.Name {
			case "Put", "Get", "Delete", "Exists":
			default:
				return true
			}
			n++
			k := ast.Unparen(call.Args[0])
			if id, ok := k.(*ast.Ident); ok {
				if d, ok := def[info.Uses[id]]; ok {
					k = ast.Unparen(d)
				}
			}
			good := false
			switch x := k.(type) {
			case *ast.CallExpr:
				if cal := core.Callee(info, x); cal != nil && (cal.Name() == "dataKey" || cal.Name() == "indexKey") && core.RecvTypeName(cal) == "IndexedStore" {
					good = true
					// the value part of an index key is the index's ValueOf(object) — the value function plus, for a non-unique
					// index, the object's id — in every writer and remover alike (putTx, DeleteTx, RebuildTx)
					if cal.Name() == "indexKey" && len(x.Args) == 2 {
						v := ast.Unparen(x.Args[1])
						if id, ok := v.(*ast.Ident); ok {
							if d, ok := def[info.Uses[id]]; ok {
								v = ast.Unparen(d)
							}
						}
						src := ""
						if vc, ok := v.(*ast.CallExpr); ok {
							if g := core.Callee(info, vc); g != nil {
								src = g.Name()
							} else if sl, ok := vc.Fun.(*ast.SelectorExpr); ok {
								src = sl.Sel.Name
							}
						}
						c.Check(src == "ValueOf", "C15.keys", f.Decl.Name.Name+"#index-value:"+types.ExprString(x.Args[1]), x.Pos(), "the value part of the index key is %s (from %q); every index key must be built from Index.ValueOf(object): a key built from the raw value function lacks the /<id> suffix of non-unique indexes, so entries written here are neither replaced nor removed by the other operations (objects listed twice, `no key exists` after a delete)", types.ExprString(v), src)
					}
				}
			case *ast.SelectorExpr:
				if x.Sel.Name == "Key" {
					good = true // the key of an entry listed from the store
				}
			}
			c.Check(good, "C15.keys", f.Decl.Name.Name+"#"+sel.Sel.Name+"("+types.ExprString(call.Args[0])+")", call.Pos(), "the key given to tx.%s is %s, not dataKey(…)/indexKey(…)/a listed entry's key", sel.Sel.Name, types.ExprString(k))
			return true
		})
	}
	c.Floor("C15.keys", "transaction key arguments in IndexedStore", n, 8)
}

func c15List(c *core.Ctx, pkg *packages.Package) {
	info := pkg.TypesInfo
	fn := c.Need("C15.list", "services/storage", "IndexedStore", "list")
	if fn == nil {
		return
	}
	pattern, offset := an.ParamName(fn.Decl.Type, 2), an.ParamName(fn.Decl.Type, 3)
	eng := &an.Engine{Prog: c.P,
		TrackCall: func(call *ast.CallExpr, callee *types.Func) string {
			if callee != nil && callee.Name() == "DoListFunc" {
				return "DoListFunc"
			}
			return ""
		},
		Classify: func(a an.Atom) (string, bool) {
			if k, ok := an.ErrNilAtom(info, a); ok && strings.Contains(k, ".List(") {
				return "listErr", true
			}
			return "", false
		}}
	paths, err := eng.Run(fn)
	if err != nil {
		c.Undecided("C15.list", "IndexedStore.list", fn.Decl.Pos(), "%v", err)
		return
	}
	good := len(paths) > 0
	for _, p := range paths {
		if p.Assign()["listErr"] {
			continue
		}
		d := p.Find("DoListFunc")
		if d == nil {
			if len(p.Rets) == 2 && p.Rets[1] == "nil" {
				good = false
				c.Fail("C15.list", "IndexedStore.list#paged", p.RetPos, "a successful path does not go through DoListFunc: the pattern and the offset are ignored on path [%s]", p.Cond())
			}
			continue
		}
		if len(d.Args) != 4 || !strings.Contains(d.Args[0], ".List(") || d.Args[2] != offset {
			good = false
			c.Fail("C15.list", "IndexedStore.list#args", d.Pos, "DoListFunc must get (index entries, match, offset, limit); gets %v", d.Args)
		}
	}
	// the match function uses the pattern when one is given
	usesPattern := false
	ast.Inspect(fn.Decl.Body, func(nd ast.Node) bool {
		if call, ok := nd.(*ast.CallExpr); ok {
			if f := core.Callee(info, call); f != nil && f.Name() == "Match" && len(call.Args) == 2 && types.ExprString(call.Args[0]) == pattern {
				usesPattern = true
			}
		}
		return true
	})
	c.Check(usesPattern, "C15.list", "IndexedStore.list#pattern", fn.Decl.Pos(), "the match function does not test ids against the pattern parameter")
	if good {
		c.Ok("C15.list", "IndexedStore.list")
	}
}

func c15DoList(c *core.Ctx, pkg *packages.Package) {
	info := pkg.TypesInfo
	fn := c.Need("C15.dolist", "services/storage", "", "DoListFunc")
	if fn == nil {
		return
	}
	match, offset := an.ParamName(fn.Decl.Type, 1), an.ParamName(fn.Decl.Type, 2)
	eng := &an.Engine{Prog: c.P,
		TrackCall: func(call *ast.CallExpr, callee *types.Func) string {
			if core.IsBuiltin(info, call, "append") {
				return "append"
			}
			return ""
		},
		TrackStore: func(lhs ast.Expr, key string) string {
			if id, ok := ast.Unparen(lhs).(*ast.Ident); ok {
				if v, ok := info.Uses[id].(*types.Var); ok {
					if b, ok := v.Type().Underlying().(*types.Basic); ok && b.Info()&types.IsInteger != 0 {
						return "count:" + id.Name
					}
				}
			}
			return ""
		},
		Classify: func(a an.Atom) (string, bool) {
			switch {
			case strings.HasPrefix(a.Key, match+"("):
				return "match", false
			case a.Op == token.LSS && a.L == offset: // offset < i  ==  ¬(i <= offset)
				return "beyond", false
			case a.Op == token.LSS && a.R == offset:
				return "before", false
			}
			return "", false
		}}
	paths, err := eng.Run(fn)
	if err != nil {
		c.Undecided("C15.dolist", "DoListFunc", fn.Decl.Pos(), "%v", err)
		return
	}
	good := false
	bad := false
	for _, p := range paths {
		in := false
		var w []string
		for _, e := range p.Events {
			switch {
			case e.Kind == "loop":
				in = true
			case e.Kind == "endloop":
				in = false
			case in && e.Kind == "store" && strings.HasPrefix(e.Name, "count:"):
				w = append(w, "count")
			case in && e.Name == "append":
				w = append(w, "append")
			}
		}
		a := p.Assign()
		m, mDecided := a["match"]
		if !mDecided {
			continue
		}
		got := strings.Join(w, ",")
		if !m {
			if got != "" {
				bad = true
				c.Fail("C15.dolist", "DoListFunc#nonmatch", p.RetPos, "a non-matching entry is counted or returned: [%s]", got)
			}
			continue
		}
		// matching entry: counted first, then compared with the offset
		var offLit *an.Lit
		for i := range p.Lits {
			if p.Lits[i].Name == "beyond" || p.Lits[i].Name == "before" {
				offLit = &p.Lits[i]
			}
		}
		if offLit == nil {
			bad = true
			c.Fail("C15.dolist", "DoListFunc#offset", p.RetPos, "a matching entry is handled without comparing a counter with the offset")
			continue
		}
		// the counter store must precede the comparison, and the compared value must be that counter (its key mentions the increment)
		counted := len(w) > 0 && w[0] == "count"
		cmpKey := offLit.Key
		if !counted || !(strings.Contains(cmpKey, "++") || strings.Contains(cmpKey, "+ 1")) {
			bad = true
			c.Fail("C15.dolist", "DoListFunc#counts-matches", offLit.Pos, "the value compared with the offset (%s) is not a counter incremented for this matching entry: the offset is applied to positions in the whole index listing instead of positions among the matches, so pages repeat or skip entries whenever a pattern is given", cmpKey)
			continue
		}
		// the counter has been incremented for this entry already (1-based): the entry lies beyond the offset exactly when
		// offset < counter. The other spelling, counter < offset, puts the entry with counter == offset on the wrong side
		// (seed C14-15-r5: every page with an offset starts one entry early and the last entry is never returned).
		if offLit.Name == "before" {
			bad = true
			c.Fail("C15.dolist", "DoListFunc#boundary", offLit.Pos, "the counter, already incremented for the entry, is compared with the offset as %s: the entry whose count equals the offset is returned although it belongs to the previous page — pages overlap by one and the last entry of the listing is never returned (Open's start-up loop pages through the tasks by 100: the last enabled task is never started)", offLit.Key)
			continue
		}
		beyond := (offLit.Name == "beyond" && offLit.Val) || (offLit.Name == "before" && !offLit.Val)
		if beyond && !strings.Contains(got, "append") {
			bad = true
			c.Fail("C15.dolist", "DoListFunc#append", p.RetPos, "a matching entry beyond the offset is not returned")
		}
		if !beyond && strings.Contains(got, "append") {
			bad = true
			c.Fail("C15.dolist", "DoListFunc#skip", p.RetPos, "a matching entry before the offset is returned")
		}
		good = true
	}
	if good && !bad {
		c.Ok("C15.dolist", "DoListFunc")
	}
}

func c15Exists(c *core.Ctx, pkg *packages.Package) {
	info := pkg.TypesInfo
	if fn := c.Need("C15.exists", "services/storage", "Bolt", "exists"); fn != nil {
		prefix := false
		exact := false
		ast.Inspect(fn.Decl.Body, func(nd ast.Node) bool {
			call, ok := nd.(*ast.CallExpr)
			if !ok {
				return true
			}
			if f := core.Callee(info, call); f != nil {
				switch f.Name() {
				case "HasPrefix", "Contains", "HasSuffix":
					prefix = true
				case "Get":
					if core.RecvTypeName(f) == "Bucket" {
						exact = true
					}
				case "Equal":
					exact = true
				}
			}
			return true
		})
		ast.Inspect(fn.Decl.Body, func(nd ast.Node) bool {
			if be, ok := nd.(*ast.BinaryExpr); ok && be.Op == token.EQL {
				if strings.Contains(types.ExprString(be), "string(") || strings.Contains(types.ExprString(be), "key") {
					exact = exact || strings.Contains(types.ExprString(be), "key")
				}
			}
			return true
		})
		c.Check(exact && !prefix, "C15.exists", "Bolt.exists", fn.Decl.Pos(), "exists must be an exact-key lookup (prefix test used: %v, exact lookup found: %v): with a prefix test Exists(\"a\") is true when only \"ab\" is stored, and Get/Create/Delete of \"a\" misbehave", prefix, exact)
	}
	if fn := c.Need("C15.exists", "services/storage", "IndexedStore", "GetTx"); fn != nil {
		eng := &an.Engine{Prog: c.P,
			TrackCall: func(call *ast.CallExpr, callee *types.Func) string {
				if callee != nil && (callee.Name() == "Exists" || callee.Name() == "Get" || callee.Name() == "UnmarshalBinary") {
					return callee.Name()
				}
				return ""
			},
			Classify: func(a an.Atom) (string, bool) {
				if strings.Contains(a.Key, ".Exists(") && strings.HasSuffix(a.Key, ").0") {
					return "exists", false
				}
				if k, ok := an.ErrNilAtom(info, a); ok {
					switch {
					case strings.Contains(k, ".Exists("):
						return "existsErr", true
					case strings.Contains(k, ".Get("):
						return "getErr", true
					}
				}
				return "", false
			}}
		paths, err := eng.Run(fn)
		if err != nil {
			c.Undecided("C15.exists", "IndexedStore.GetTx", fn.Decl.Pos(), "%v", err)
			return
		}
		an.CheckTable(c, "C15.exists", "IndexedStore.GetTx", paths, an.Table{Atoms: []string{"existsErr", "exists", "getErr"},
			Outcome: func(p *an.Path) string {
				s := an.Seq(p, "Exists", "Get", "UnmarshalBinary")
				r := "?"
				if len(p.Rets) == 2 {
					switch {
					case strings.HasSuffix(p.Rets[1], "ErrNoObjectExists"):
						r = "ErrNoObjectExists"
					case p.Rets[0] == "nil":
						r = "err"
					default:
						r = "object"
					}
				}
				return s + "→" + r
			},
			Expect: func(a map[string]bool) string {
				switch {
				case a["existsErr"]:
					return "Exists→err"
				case !a["exists"]:
					return "Exists→ErrNoObjectExists"
				case a["getErr"]:
					return "Exists,Get→err"
				}
				return "Exists,Get,UnmarshalBinary→object"
			}})
	}
}

// c15Normalisers are string functions that map different inputs to one output (or move a path out of its directory):
// a key part that went through one of them no longer identifies the object it was built from.
var c15Normalisers = map[string]bool{
	"path.Join": true, "path.Clean": true, "path.Base": true, "path.Dir": true,
	"path/filepath.Join": true, "path/filepath.Clean": true, "path/filepath.Base": true, "path/filepath.Dir": true,
	"strings.ToLower": true, "strings.ToUpper": true, "strings.TrimSpace": true, "strings.Trim": true, "strings.TrimLeft": true,
	"strings.TrimRight": true, "strings.TrimPrefix": true, "strings.TrimSuffix": true, "strings.Title": true, "strings.ToTitle": true,
	"strings.Replace": true, "strings.ReplaceAll": true, "strings.Fields": true,
}

// c15Canon prints an expression with the given objects replaced by placeholders (receiver and parameters of the function it
// comes from), so that the same prefix expression written in two methods prints the same.
func c15Canon(info *types.Info, e ast.Expr, subst map[types.Object]string) string {
	switch x := ast.Unparen(e).(type) {
	case *ast.Ident:
		if obj := info.Uses[x]; obj != nil {
			if s, ok := subst[obj]; ok {
				return s
			}
		}
		return x.Name
	case *ast.SelectorExpr:
		return c15Canon(info, x.X, subst) + "." + x.Sel.Name
	case *ast.BinaryExpr:
		return c15Canon(info, x.X, subst) + " " + x.Op.String() + " " + c15Canon(info, x.Y, subst)
	case *ast.CallExpr:
		var args []string
		for _, a := range x.Args {
			args = append(args, c15Canon(info, a, subst))
		}
		return c15Canon(info, x.Fun, subst) + "(" + strings.Join(args, ", ") + ")"
	}
	return types.ExprString(e)
}

// c15KeyShape: F40. The part of a key that comes from the object (its ID, its index value) is appended to the directory prefix
// as it is, and a directory scan uses that very prefix.
func c15KeyShape(c *core.Ctx, pkg *packages.Package) {
	info := pkg.TypesInfo
	type shape struct {
		prefix string // canonical prefix with receiver → RECV and the other parameters → $i
		nparam int
	}
	shapes := map[string]shape{}
	for _, name := range []string{"dataKey", "indexKey"} {
		fn := c.Need("C15.keyshape", "services/storage", "IndexedStore", name)
		if fn == nil {
			continue
		}
		cons := "IndexedStore." + name
		var params []*ast.Ident
		for _, f := range fn.Decl.Type.Params.List {
			params = append(params, f.Names...)
		}
		if len(params) == 0 {
			c.Undecided("C15.keyshape", cons, fn.Decl.Pos(), "the key builder has no parameter")
			continue
		}
		v := info.Defs[params[len(params)-1]]
		subst := map[types.Object]string{}
		if r := fn.Decl.Recv; r != nil && len(r.List) == 1 && len(r.List[0].Names) == 1 {
			subst[info.Defs[r.List[0].Names[0]]] = "RECV"
		}
		for i, p := range params[:len(params)-1] {
			subst[info.Defs[p]] = fmt.Sprintf("$%d", i)
		}
		uses := func(e ast.Node) bool {
			found := false
			ast.Inspect(e, func(nd ast.Node) bool {
				if id, ok := nd.(*ast.Ident); ok && info.Uses[id] == v {
					found = true
				}
				return !found
			})
			return found
		}
		good, decided := true, true
		// the variable part never goes through a call, is never reassigned
		ast.Inspect(fn.Decl.Body, func(nd ast.Node) bool {
			switch x := nd.(type) {
			case *ast.AssignStmt:
				for _, l := range x.Lhs {
					if id, ok := l.(*ast.Ident); ok && (info.Uses[id] == v || info.Defs[id] == v) {
						good = false
						c.Fail("C15.keyshape", cons+"#reassigned", x.Pos(), "the key builder rewrites its %s parameter before using it: two objects whose %ss differ may get one key", params[len(params)-1].Name, params[len(params)-1].Name)
					}
				}
			case *ast.CallExpr:
				if tv, ok := info.Types[x.Fun]; ok && tv.IsType() {
					return true // a conversion
				}
				for _, a := range x.Args {
					if !uses(a) {
						continue
					}
					callee := core.Callee(info, x)
					full := types.ExprString(x.Fun)
					if callee != nil && callee.Pkg() != nil {
						full = callee.Pkg().Path() + "." + callee.Name()
					}
					if c15Normalisers[full] {
						good = false
						c.Fail("C15.keyshape", cons+"#verbatim", x.Pos(), "the %s part of the key goes through %s, which is not one-to-one and may leave the directory: e.g. path.Join cleans \".\" and \"..\" (both pass the task/template/handler ID validators) to the directory itself or its parent, so the entry is written where list never scans — the object is stored, readable by Get and never listed; an empty value collapses into the next segment", params[len(params)-1].Name, full)
					} else {
						decided = false
						c.Undecided("C15.keyshape", cons+"#verbatim", x.Pos(), "the %s part of the key goes through %s, whose effect on it is not known to this rule", params[len(params)-1].Name, full)
					}
				}
			}
			return true
		})
		// every return is PREFIX + v
		nret := 0
		ast.Inspect(fn.Decl.Body, func(nd ast.Node) bool {
			if _, ok := nd.(*ast.FuncLit); ok {
				return false
			}
			ret, ok := nd.(*ast.ReturnStmt)
			if !ok || len(ret.Results) != 1 {
				return true
			}
			nret++
			be, ok := ast.Unparen(ret.Results[0]).(*ast.BinaryExpr)
			if !ok || be.Op != token.ADD {
				if good && decided {
					decided = false
					c.Undecided("C15.keyshape", cons+"#shape", ret.Pos(), "the key is not written as <prefix> + %s: %s", params[len(params)-1].Name, types.ExprString(ret.Results[0]))
				}
				return true
			}
			last, ok := ast.Unparen(be.Y).(*ast.Ident)
			if !ok || info.Uses[last] != v || uses(be.X) {
				good = false
				c.Fail("C15.keyshape", cons+"#suffix", ret.Pos(), "the key must end with the %s parameter and use it nowhere else (prefix + %s); it is %s", params[len(params)-1].Name, params[len(params)-1].Name, types.ExprString(ret.Results[0]))
				return true
			}
			pre := c15Canon(info, be.X, subst)
			if sh, ok := shapes[name]; ok && sh.prefix != pre {
				good = false
				c.Fail("C15.keyshape", cons+"#one-prefix", ret.Pos(), "two returns build the key with different prefixes: %s and %s", sh.prefix, pre)
			}
			shapes[name] = shape{prefix: pre, nparam: len(params) - 1}
			return true
		})
		if nret == 0 {
			c.Undecided("C15.keyshape", cons+"#shape", fn.Decl.Pos(), "no single-value return found")
			continue
		}
		if good && decided {
			c.Ok("C15.keyshape", cons)
		}
	}
	if len(shapes) == 0 {
		return
	}
	// every directory scan in IndexedStore scans the prefix of one of the key builders
	n := 0
	for _, f := range core.AllFuncs(pkg) {
		if core.RecvName(f.Decl) != "IndexedStore" {
			continue
		}
		subst := map[types.Object]string{}
		if r := f.Decl.Recv; r != nil && len(r.List) == 1 && len(r.List[0].Names) == 1 {
			subst[info.Defs[r.List[0].Names[0]]] = "RECV"
		}
		ast.Inspect(f.Decl.Body, func(nd ast.Node) bool {
			call, ok := nd.(*ast.CallExpr)
			if !ok || len(call.Args) != 1 {
				return true
			}
			sel, ok := call.Fun.(*ast.SelectorExpr)
			if !ok || sel.Sel.Name != "List" {
				return true
			}
			s, ok := info.Selections[sel]
			if !ok || !isTxType(s.Recv()) {
				return true
			}
			n++
			got := c15Canon(info, call.Args[0], subst)
			match := ""
			for name, sh := range shapes {
				re := regexp.QuoteMeta(sh.prefix)
				for i := 0; i < sh.nparam; i++ {
					re = strings.ReplaceAll(re, regexp.QuoteMeta(fmt.Sprintf("$%d", i)), `[^(),]+`)
				}
				if regexp.MustCompile("^" + re + "$").MatchString(got) {
					match = name
				}
			}
			cons := f.Decl.Name.Name + "#scan"
			c.Check(match != "", "C15.keyshape", cons, call.Pos(), "the directory scan tx.List(%s) does not use the prefix any key builder prepends (%v): entries written by the builders and entries scanned here can differ, so objects are missing from, or foreign keys appear in, the listing/rebuild", types.ExprString(call.Args[0]), shapes)
			return true
		})
	}
	c.Floor("C15.keyshape", "directory scans in IndexedStore", n, 3)
}
