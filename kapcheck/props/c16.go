package props

import (
	"go/ast"
	"go/token"
	"go/types"
	"sort"
	"strings"

	"golang.org/x/tools/go/packages"

	"kapcheck/an"
	"kapcheck/core"
)

func init() {
	register(&Property{
		ID:       "C16",
		Patterns: []string{"."},
		Run:      runC16,
		Explanation: "Batch query ranges decided as structure: NewQuery splices exactly `time >= startTL AND time < stopTL` (those operators, the `time` variable, the two literal objects kept in Query) under an AND whose other operand is the user's condition, parenthesised whenever it can be an OR (influxql prints no parentheses); Clone rediscovers the literals with the same operators in the clone's own statement and keeps the clone's own GROUP BY time literals; " +
			"the live tick (doQuery) and the historical list (Queries) derive stop = tick − offset and start = stop − period by the same expressions, set both before the statement is printed, and the historical loop ends at the first tick after `stop` or whose query stop lies in the future; the aligned ticker's Next is the same function as its first live tick and the cron ticker uses the same clock zone live and historically; " +
			"StartBatching and BatchQueries check the declared database/retention policies of every source of every query (any non-measurement source is refused) before anything is started or listed. " +
			"NOT decided: InfluxQL semantics of the user's condition, cron arithmetic, equality of the two lists over all spans (only the per-tick functions and loop bounds are compared).",
		Assumptions: []string{"influxql.BinaryExpr.String prints `LHS op RHS` without parentheses and ParenExpr prints them (read in the vendored module)", "time.Truncate(d) of a multiple of d is the identity"},
	})
}

func runC16(c *core.Ctx) {
	c.Rule("C16.splice", "A7/A1: NewQuery stores as condition AND(user condition, AND(time >= startTL, time < stopTL)) (or just the inner AND when there is no user condition); the two comparisons use GTE and LT on VarRef `time` against the very literals stored in Query.startTL/stopTL (two distinct objects); on every path where the user condition may be an OR expression it is wrapped in a ParenExpr before it is put under the AND")
	c.Rule("C16.clone", "A7: Clone deep-copies the statement, walks the clone's own condition, binds startTL to the literal under GTE and stopTL to the literal under LT on `time` (the operators NewQuery wrote), reports a missing or duplicate bound as an error, and binds groupByTimeDL/groupByOffsetDL to the literal nodes of the clone's own GROUP BY time() call (not to copies)")
	c.Rule("C16.range", "A3/A11: in the live tick and in the historical list the query's stop is tick.Add(-1*Offset) and its start is stop.Add(-1*Period), set with SetStartTime/SetStopTime on the query that is then printed (live) or appended (a fresh Clone per tick, historical)")
	c.Rule("C16.bound", "A1: Queries defaults a zero stop to now, starts from start.Local(), advances with ticker.Next, ends at the first tick that is zero or after stop (the tick, not the query stop) and at the first query stop after now; nothing else ends or skips the loop")
	c.Rule("C16.ticker", "A3: timeTicker.Next is now+every, truncated to a multiple of every under align — the same function as the aligned ticker's first live tick (Truncate(now)+every); cronTicker computes the live tick and the historical tick with the same expr.Next on un-converted local time and sends the scheduled time")
	c.Rule("C16.dbrps", "A1/A2: StartBatching and BatchQueries call checkDBRPs first and return its error without starting or listing; checkDBRPs refuses any (db, rp) not declared by the task; BatchNode.DBRPs visits every child query; Query.DBRPs visits every source and refuses every source that is not a plain measurement")

	pkg := c.P.Pkg("")
	if pkg == nil {
		c.Undecided("C16.splice", "anchor:root", token.NoPos, "root package not loaded")
		return
	}
	startOp, stopOp := c16Splice(c, pkg)
	c16Clone(c, pkg, startOp, stopOp)
	c16Range(c, pkg)
	c16Render(c, pkg)
	c16ProbeRules(c, pkg)
	c16TickPhase(c, pkg)
	c16TickerWiring(c, pkg)
	c05Cron(c, pkg, "", "C16.cronend")
	c16Ticker(c, pkg)
	c16DBRPs(c, pkg)
}

// c16Resolve: x, or the single composite literal a local identifier was assigned.
func c16Resolve(fn *core.Func, x ast.Expr) ast.Expr {
	x = ast.Unparen(x)
	id, ok := x.(*ast.Ident)
	if !ok {
		return x
	}
	info := fn.Pkg.TypesInfo
	obj := info.Uses[id]
	if obj == nil {
		return x
	}
	var found ast.Expr
	n := 0
	ast.Inspect(fn.Decl.Body, func(nd ast.Node) bool {
		if as, ok := nd.(*ast.AssignStmt); ok && len(as.Rhs) == len(as.Lhs) {
			for i, l := range as.Lhs {
				if lid, ok := l.(*ast.Ident); ok && (info.Defs[lid] == obj || info.Uses[lid] == obj) {
					n++
					found = as.Rhs[i]
				}
			}
		}
		return true
	})
	if n == 1 {
		return ast.Unparen(found)
	}
	return x
}

// c16Flat flattens nested keyed composite literals, resolving local identifiers assigned once.
func c16Flat(fn *core.Func, x ast.Expr) map[string]string {
	out := map[string]string{}
	var rec func(prefix string, x ast.Expr, depth int)
	rec = func(prefix string, x ast.Expr, depth int) {
		x = c16Resolve(fn, x)
		if u, ok := x.(*ast.UnaryExpr); ok && u.Op == token.AND {
			x = u.X
		}
		cl, ok := x.(*ast.CompositeLit)
		if !ok || depth > 6 {
			out[prefix] = types.ExprString(x)
			return
		}
		out[prefix+"@"] = types.ExprString(cl.Type)
		for _, el := range cl.Elts {
			if kv, ok := el.(*ast.KeyValueExpr); ok {
				if id, ok := kv.Key.(*ast.Ident); ok {
					p := id.Name
					if prefix != "" {
						p = prefix + "." + id.Name
					}
					rec(p, kv.Value, depth+1)
				}
			}
		}
	}
	rec("", x, 0)
	return out
}

func c16Splice(c *core.Ctx, pkg *packages.Package) (startOp, stopOp string) {
	info := pkg.TypesInfo
	fn := c.Need("C16.splice", "", "", "NewQuery")
	if fn == nil {
		return
	}
	// the literal objects
	lits := map[string]ast.Expr{}
	ast.Inspect(fn.Decl.Body, func(n ast.Node) bool {
		if as, ok := n.(*ast.AssignStmt); ok && len(as.Lhs) == 1 && len(as.Rhs) == 1 {
			for _, f := range []string{"startTL", "stopTL"} {
				if an.FieldSel(info, as.Lhs[0], "Query", f) {
					lits[f] = as.Rhs[0]
				}
			}
		}
		return true
	})
	fresh := func(x ast.Expr) bool {
		if u, ok := ast.Unparen(x).(*ast.UnaryExpr); ok && u.Op == token.AND {
			if cl, ok := u.X.(*ast.CompositeLit); ok && types.ExprString(cl.Type) == "influxql.TimeLiteral" {
				return true
			}
		}
		return false
	}
	c.Check(lits["startTL"] != nil && lits["stopTL"] != nil && fresh(lits["startTL"]) && fresh(lits["stopTL"]) && lits["startTL"] != lits["stopTL"], "C16.splice", "NewQuery#literals", fn.Decl.Pos(), "NewQuery must store two distinct fresh TimeLiterals in Query.startTL and Query.stopTL")

	// assignments to stmt.Condition with a BinaryExpr literal
	type side struct{ op, lhs, rhs string }
	nAssign := 0
	good := true
	var ops [2]string
	ast.Inspect(fn.Decl.Body, func(n ast.Node) bool {
		as, ok := n.(*ast.AssignStmt)
		if !ok || len(as.Lhs) != 1 || len(as.Rhs) != 1 || !an.FieldSel(info, as.Lhs[0], "SelectStatement", "Condition") {
			return true
		}
		flat := c16Flat(fn, as.Rhs[0])
		if flat["@"] != "influxql.BinaryExpr" {
			return true // the ParenExpr wrap, decided below on paths
		}
		nAssign++
		// collect comparison subtrees and other leaves
		var cmps []string
		var others []string
		for _, k := range an.SortedKeys(flat) {
			v := flat[k]
			switch {
			case strings.HasSuffix(k, "@"):
			case k == "Op" || strings.HasSuffix(k, ".Op"):
				base := strings.TrimSuffix(k, "Op")
				if v == "influxql.AND" {
					continue
				}
				cmps = append(cmps, v+"|"+flat[base+"LHS@"]+"|"+flat[base+"LHS.Val"]+"|"+flat[base+"RHS"])
			case strings.HasSuffix(k, "LHS.Val"):
			case strings.HasSuffix(k, "RHS") && (strings.HasSuffix(v, ".startTL") || strings.HasSuffix(v, ".stopTL")):
			default:
				others = append(others, v)
			}
		}
		sort.Strings(cmps)
		var startCmp, stopCmp string
		for _, cm := range cmps {
			p := strings.Split(cm, "|")
			switch {
			case strings.HasSuffix(p[3], ".startTL"):
				startCmp = cm
				ops[0] = p[0]
			case strings.HasSuffix(p[3], ".stopTL"):
				stopCmp = cm
				ops[1] = p[0]
			}
		}
		okStart := strings.HasPrefix(startCmp, "influxql.GTE|influxql.VarRef|\"time\"|")
		okStop := strings.HasPrefix(stopCmp, "influxql.LT|influxql.VarRef|\"time\"|")
		okOthers := len(others) == 0 || (len(others) == 1 && strings.HasSuffix(others[0], ".stmt.Condition"))
		if !(len(cmps) == 2 && okStart && okStop && okOthers) {
			good = false
			c.Fail("C16.splice", "NewQuery#condition", as.Pos(), "the condition stored is not AND(user condition, time >= startTL AND time < stopTL): comparisons %v, other operands %v (every connective must be AND, the lower bound inclusive, the upper bound exclusive, both on `time` against Query.startTL/stopTL)", cmps, others)
		}
		return true
	})
	c.Floor("C16.splice", "condition assignments in NewQuery", nAssign, 2)
	if good && nAssign >= 2 {
		c.Ok("C16.splice", "NewQuery#condition")
	}
	startOp, stopOp = ops[0], ops[1]

	// parenthesisation, on paths
	eng := &an.Engine{Prog: c.P, Forward: true,
		TrackStore: func(lhs ast.Expr, key string) string {
			if an.FieldSel(info, lhs, "SelectStatement", "Condition") {
				return "cond"
			}
			return ""
		},
		Classify: func(a an.Atom) (string, bool) {
			switch {
			case a.Op == token.EQL && a.R == "nil" && strings.HasSuffix(a.L, ".Condition"):
				return "nocond", false
			case strings.HasSuffix(a.Key, ".Condition.(*influxql.BinaryExpr).1"):
				return "binary", false
			case a.Op == token.EQL && strings.HasSuffix(a.L, ".Op") && a.R == "influxql.OR":
				return "or", false
			}
			return "", false
		}}
	paths, err := eng.Run(fn)
	if err != nil {
		c.Undecided("C16.splice", "NewQuery#paren", fn.Decl.Pos(), "%v", err)
		return
	}
	pgood := false
	bad := false
	for _, p := range paths {
		if len(p.Rets) != 2 || p.Rets[1] != "nil" {
			continue
		}
		a := p.Assign()
		if a["nocond"] {
			continue
		}
		// may the user's condition be an OR on this path?
		if v, dec := a["binary"]; dec && !v {
			continue
		}
		if v, dec := a["or"]; dec && !v {
			continue
		}
		// the last stored condition must have a ParenExpr as its user operand
		var last *an.Event
		for i := range p.Events {
			if p.Events[i].Kind == "store" && p.Events[i].Name == "cond" {
				last = &p.Events[i]
			}
		}
		if last == nil || !strings.Contains(last.Args[0], "LHS: &influxql.ParenExpr{") {
			bad = true
			c.Fail("C16.splice", "NewQuery#or-parenthesised", p.RetPos, "on a path where the user's condition can be `a OR b` it is put under the AND without parentheses: influxql prints `a OR b AND time >= … AND time < …`, which InfluxDB reads as `a OR (b AND …)` — the first disjunct has no time bound (path: %s)", p.Cond())
		} else {
			pgood = true
		}
	}
	if pgood && !bad {
		c.Ok("C16.splice", "NewQuery#or-parenthesised")
	} else if !bad {
		c.Fail("C16.splice", "NewQuery#or-parenthesised", fn.Decl.Pos(), "no path of NewQuery wraps the user's condition in a ParenExpr")
	}
	return
}

func c16Clone(c *core.Ctx, pkg *packages.Package, startOp, stopOp string) {
	info := pkg.TypesInfo
	fn := c.Need("C16.clone", "", "Query", "Clone")
	if fn == nil {
		return
	}
	n := "?"
	// n := &Query{stmt: q.stmt.Clone(), alignGroup: q.alignGroup}
	deep, align := false, false
	ast.Inspect(fn.Decl.Body, func(nd ast.Node) bool {
		if as, ok := nd.(*ast.AssignStmt); ok && len(as.Lhs) == 1 && len(as.Rhs) == 1 {
			flat := c16Flat(fn, as.Rhs[0])
			if flat["@"] == "Query" {
				n = types.ExprString(as.Lhs[0])
				deep = strings.HasSuffix(flat["stmt"], ".stmt.Clone()")
				align = strings.HasSuffix(flat["alignGroup"], ".alignGroup")
			}
		}
		return true
	})
	c.Check(deep && align, "C16.clone", "Query.Clone#deep", fn.Decl.Pos(), "Clone must deep-copy the statement (stmt.Clone()) and carry alignGroup over (deep %v, alignGroup %v): a shared statement makes every historical query print the last times set", deep, align)
	// the two walks
	var condWalk, dimWalk *ast.FuncLit
	ast.Inspect(fn.Decl.Body, func(nd ast.Node) bool {
		call, ok := nd.(*ast.CallExpr)
		if !ok || len(call.Args) != 2 {
			return true
		}
		if f := core.Callee(info, call); f == nil || f.Name() != "WalkFunc" {
			return true
		}
		fl, ok := call.Args[1].(*ast.FuncLit)
		if !ok {
			return true
		}
		switch types.ExprString(call.Args[0]) {
		case n + ".stmt.Condition":
			condWalk = fl
		case n + ".stmt.Dimensions":
			dimWalk = fl
		}
		return true
	})
	if condWalk == nil {
		c.Fail("C16.clone", "Query.Clone#walk", fn.Decl.Pos(), "Clone does not walk the condition of the cloned statement (%s.stmt.Condition) to find the time literals: literals of the original would be bound and every clone would rewrite the original's times", n)
	} else {
		// case clause constant → field bound
		got := map[string]string{}
		timeVar := 0
		ast.Inspect(condWalk.Body, func(nd ast.Node) bool {
			cc, ok := nd.(*ast.CaseClause)
			if !ok || len(cc.List) != 1 {
				return true
			}
			op := types.ExprString(cc.List[0])
			for _, st := range cc.Body {
				ast.Inspect(st, func(m ast.Node) bool {
					switch x := m.(type) {
					case *ast.AssignStmt:
						for _, f := range []string{"startTL", "stopTL"} {
							if len(x.Lhs) == 1 && an.FieldSel(info, x.Lhs[0], "Query", f) {
								// the value bound must come from a type assertion on bn.RHS to *TimeLiteral
								got[op] = f + "=" + c16AssertSource(info, cc, x.Rhs[0])
							}
						}
					case *ast.BinaryExpr:
						if x.Op == token.NEQ && types.ExprString(x.Y) == `"time"` {
							timeVar++
						}
					}
					return true
				})
			}
			return true
		})
		want := map[string]string{startOp: "startTL=RHS.(*influxql.TimeLiteral)", stopOp: "stopTL=RHS.(*influxql.TimeLiteral)"}
		okk := startOp != "" && stopOp != "" && len(got) == 2 && got[startOp] == want[startOp] && got[stopOp] == want[stopOp] && timeVar == 2
		c.Check(okk, "C16.clone", "Query.Clone#rediscover", condWalk.Pos(), "Clone must bind startTL to the TimeLiteral on the right of `time %s` and stopTL to the one right of `time %s` (what NewQuery wrote); it binds %v with %d checks of the `time` variable", startOp, stopOp, got, timeVar)
	}
	// missing bounds are errors
	missing := 0
	ast.Inspect(fn.Decl.Body, func(nd ast.Node) bool {
		if ifs, ok := nd.(*ast.IfStmt); ok {
			if be, ok := ifs.Cond.(*ast.BinaryExpr); ok && be.Op == token.EQL && an.IsNil(info, be.Y) && (an.FieldSel(info, be.X, "Query", "startTL") || an.FieldSel(info, be.X, "Query", "stopTL")) {
				for _, st := range ifs.Body.List {
					if as, ok := st.(*ast.AssignStmt); ok && len(as.Lhs) == 1 && an.IsErrorType(info, as.Lhs[0]) {
						missing++
					}
				}
			}
		}
		return true
	})
	c.Check(missing == 2, "C16.clone", "Query.Clone#missing-bound", fn.Decl.Pos(), "a clone without start or stop literal must be reported as an error (found %d of 2 checks): SetStartTime on it dereferences nil", missing)
	if dimWalk == nil {
		c.Fail("C16.clone", "Query.Clone#groupby-literals", fn.Decl.Pos(), "Clone does not rebind the GROUP BY time() literals from the cloned statement's dimensions")
	} else {
		okk := true
		nb := 0
		ast.Inspect(dimWalk.Body, func(nd ast.Node) bool {
			as, ok := nd.(*ast.AssignStmt)
			if !ok || len(as.Lhs) != 1 {
				return true
			}
			for i, f := range []string{"groupByTimeDL", "groupByOffsetDL"} {
				if an.FieldSel(info, as.Lhs[0], "Query", f) {
					nb++
					src := c16AssertSource(info, dimWalk, as.Rhs[0])
					if src != "Args["+string(rune('0'+i))+"].(*influxql.DurationLiteral)" {
						okk = false
						c.Fail("C16.clone", "Query.Clone#groupby-literals", as.Pos(), "Clone binds %s to %s instead of the DurationLiteral node Args[%d] of the clone's own time() call: SetStartTime on the clone (alignGroup) updates a literal that is not part of the statement, so the historical queries keep a stale GROUP BY offset", f, types.ExprString(as.Rhs[0]), i)
					}
				}
			}
			return true
		})
		if okk {
			c.Check(nb == 2, "C16.clone", "Query.Clone#groupby-literals", dimWalk.Pos(), "Clone must rebind both GROUP BY time() literals (found %d)", nb)
		}
	}
}

// c16AssertSource: x is an identifier bound by `id, ok := <sel>.(T)` inside scope → "<last selector>.(T)".
func c16AssertSource(info *types.Info, scope ast.Node, x ast.Expr) string {
	id, ok := ast.Unparen(x).(*ast.Ident)
	if !ok {
		return types.ExprString(x)
	}
	obj := info.Uses[id]
	out := types.ExprString(x)
	ast.Inspect(scope, func(n ast.Node) bool {
		as, ok := n.(*ast.AssignStmt)
		if !ok || len(as.Lhs) != 2 || len(as.Rhs) != 1 {
			return true
		}
		if lid, ok := as.Lhs[0].(*ast.Ident); ok && info.Defs[lid] == obj {
			if ta, ok := as.Rhs[0].(*ast.TypeAssertExpr); ok {
				src := types.ExprString(ta.X)
				if i := strings.Index(src, "."); i >= 0 {
					src = src[i+1:]
				}
				out = src + ".(" + types.ExprString(ta.Type) + ")"
			}
		}
		return true
	})
	return out
}

func c16Range(c *core.Ctx, pkg *packages.Package) {
	info := pkg.TypesInfo
	track := func(call *ast.CallExpr, callee *types.Func) string {
		if callee == nil {
			if core.IsBuiltin(info, call, "append") {
				return "append"
			}
			return ""
		}
		switch callee.Name() {
		case "SetStartTime", "SetStopTime", "Clone", "String":
			if core.RecvTypeName(callee) == "Query" {
				return callee.Name()
			}
		case "After":
			return "After"
		case "Next":
			return "Next"
		case "Query":
			return "run"
		}
		return ""
	}
	const offSuffix, perSuffix = ".Add((-1 * n.b.Offset))", ".Add((-1 * n.b.Period))"
	// live
	if fn := c.Need("C16.range", "", "QueryNode", "doQuery"); fn != nil {
		eng := &an.Engine{Prog: c.P, TrackCall: track, GoLitCalls: true, MaxPaths: 40000, Alias: map[string]string{an.RecvVarName(fn.Decl): "n"}}
		paths, err := eng.Run(fn)
		if err != nil {
			c.Undecided("C16.range", "QueryNode.doQuery", fn.Decl.Pos(), "%v", err)
		} else {
			good, seen := true, false
			for _, p := range paths {
				run := p.Find("run")
				if run == nil {
					continue
				}
				seen = true
				st, sp, str := p.Find("SetStartTime"), p.Find("SetStopTime"), p.Find("String")
				if st == nil || sp == nil || str == nil || !(p.Index("SetStartTime") < p.Index("String") && p.Index("SetStopTime") < p.Index("String") && p.Index("String") < p.Index("run")) {
					good = false
					c.Fail("C16.range", "QueryNode.doQuery#order", run.Pos, "a query is executed without both times having been set before the statement is printed")
					continue
				}
				stop := sp.Args[0]
				okk := strings.HasSuffix(stop, offSuffix) && st.Args[0] == stop+perSuffix && st.Recv == "n.query" && sp.Recv == "n.query" && str.Recv == "n.query"
				tick := strings.TrimSuffix(stop, offSuffix)
				if okk && (strings.Contains(tick, ".Add(") || strings.Contains(tick, "time.Now")) {
					okk = false
				}
				if !okk {
					good = false
					c.Fail("C16.range", "QueryNode.doQuery#range", sp.Pos, "the live query range must be stop = tick.Add(-1*Offset), start = stop.Add(-1*Period) on n.query; found stop=%s start=%s", shortKey(stop), shortKey(st.Args[0]))
				}
				if !strings.Contains(run.Args[0], "Command: n.query.String()") {
					good = false
					c.Fail("C16.range", "QueryNode.doQuery#command", run.Pos, "the command sent is not the statement printed after the times were set: %s", shortKey(run.Args[0]))
				}
			}
			if good && seen {
				c.Ok("C16.range", "QueryNode.doQuery")
			} else if !seen {
				c.Fail("C16.range", "QueryNode.doQuery", fn.Decl.Pos(), "no path of doQuery executes a query")
			}
		}
	}
	// historical
	if fn := c.Need("C16.range", "", "QueryNode", "Queries"); fn != nil {
		eng := &an.Engine{Prog: c.P, TrackCall: track, Alias: map[string]string{an.RecvVarName(fn.Decl): "n", an.ParamName(fn.Decl.Type, 0): "start", an.ParamName(fn.Decl.Type, 1): "stop"}}
		paths, err := eng.Run(fn)
		if err != nil {
			c.Undecided("C16.range", "QueryNode.Queries", fn.Decl.Pos(), "%v", err)
			return
		}
		good, seen := true, false
		bgood := true
		for _, p := range paths {
			st, sp, cl, ap := p.Find("SetStartTime"), p.Find("SetStopTime"), p.Find("Clone"), p.Find("append")
			nx := p.Find("Next")
			if nx == nil {
				bgood = false
				c.Fail("C16.bound", "QueryNode.Queries#advance", p.RetPos, "a path of Queries does not advance with ticker.Next")
				continue
			}
			tick := "n.ticker.Next(" + nx.Args[0] + ")"
			// bound atoms on this path, in order
			var afters []an.Event
			for _, e := range p.Events {
				if e.Kind == "call" && e.Name == "After" {
					afters = append(afters, e)
				}
			}
			if len(afters) >= 1 {
				if afters[0].Recv != tick || !(afters[0].Args[0] == "stop" || afters[0].Args[0] == "time.Now()") {
					bgood = false
					c.Fail("C16.bound", "QueryNode.Queries#until-stop", afters[0].Pos, "the list must end at the first tick after `stop`: the test is %s.After(%s), it must compare the tick itself (%s) with stop — live ticks fire at tick time, whatever the offset", shortKey(afters[0].Recv), shortKey(afters[0].Args[0]), shortKey(tick))
				}
			}
			if len(afters) >= 2 {
				if afters[1].Recv != tick+offSuffix || afters[1].Args[0] != "time.Now()" {
					bgood = false
					c.Fail("C16.bound", "QueryNode.Queries#until-now", afters[1].Pos, "the second bound must compare the query stop (tick − offset) with now; it is %s.After(%s)", shortKey(afters[1].Recv), shortKey(afters[1].Args[0]))
				}
			}
			if !strings.HasSuffix(nx.Args[0], "start.Local()") && !strings.Contains(nx.Args[0], "~") {
				bgood = false
				c.Fail("C16.bound", "QueryNode.Queries#from-start", nx.Pos, "the first tick must be computed from start.Local() (cron expressions are evaluated in local time, like the live ticker); it is computed from %s", shortKey(nx.Args[0]))
			}
			if sp == nil {
				continue
			}
			seen = true
			if st == nil || cl == nil || ap == nil {
				good = false
				c.Fail("C16.range", "QueryNode.Queries#range", sp.Pos, "a historical query is built without Clone, SetStartTime or append")
				continue
			}
			stop := sp.Args[0]
			okk := stop == tick+offSuffix && st.Args[0] == stop+perSuffix && strings.HasPrefix(st.Recv, "n.query.Clone()") && st.Recv == sp.Recv && len(ap.Args) == 2 && ap.Args[1] == st.Recv &&
				p.Index("Clone") < p.Index("SetStartTime") && p.Index("SetStopTime") < p.Index("append")
			if !okk {
				good = false
				c.Fail("C16.range", "QueryNode.Queries#range", sp.Pos, "each historical query must be a fresh Clone with stop = tick.Add(-1*Offset), start = stop.Add(-1*Period), appended after both were set; found stop=%s start=%s on %s, appended %v", shortKey(stop), shortKey(st.Args[0]), shortKey(st.Recv), ap.Args)
			}
		}
		if good && seen {
			c.Ok("C16.range", "QueryNode.Queries")
		}
		if bgood {
			c.Ok("C16.bound", "QueryNode.Queries")
		}
		// nothing else ends or skips the loop: exactly two breaks, no continue, one error return
		br, cont := 0, 0
		zeroStop := false
		ast.Inspect(fn.Decl.Body, func(n ast.Node) bool {
			switch x := n.(type) {
			case *ast.BranchStmt:
				if x.Tok == token.BREAK {
					br++
				} else {
					cont++
				}
			case *ast.IfStmt:
				stopP := an.ParamName(fn.Decl.Type, 1)
				if types.ExprString(x.Cond) == stopP+".IsZero()" && len(an.Effective(x.Body.List)) == 1 {
					if as, ok := an.Effective(x.Body.List)[0].(*ast.AssignStmt); ok && len(as.Lhs) == 1 && types.ExprString(as.Lhs[0]) == stopP {
						// the value is the local that holds time.Now()
						rhs := types.ExprString(as.Rhs[0])
						ast.Inspect(fn.Decl.Body, func(m ast.Node) bool {
							if d, ok := m.(*ast.AssignStmt); ok && d.Tok == token.DEFINE && len(d.Lhs) == 1 && len(d.Rhs) == 1 && types.ExprString(d.Lhs[0]) == rhs && types.ExprString(d.Rhs[0]) == "time.Now()" {
								zeroStop = true
							}
							return true
						})
						if rhs == "time.Now()" {
							zeroStop = true
						}
					}
				}
			}
			return true
		})
		// the first tick is computed from the start in local time (the zone the live cron ticker evaluates in)
		startP := an.ParamName(fn.Decl.Type, 0)
		initOK := false
		ast.Inspect(fn.Decl.Body, func(n ast.Node) bool {
			if as, ok := n.(*ast.AssignStmt); ok && as.Tok == token.DEFINE && len(as.Lhs) == 1 && len(as.Rhs) == 1 {
				if types.ExprString(as.Rhs[0]) == startP+".Local()" {
					// …and that variable is what ticker.Next advances
					v := types.ExprString(as.Lhs[0])
					ast.Inspect(fn.Decl.Body, func(m ast.Node) bool {
						if call, ok := m.(*ast.CallExpr); ok && len(call.Args) == 1 && types.ExprString(call.Args[0]) == v {
							if f := core.Callee(info, call); f != nil && f.Name() == "Next" {
								initOK = true
							}
						}
						return true
					})
				}
			}
			return true
		})
		c.Check(initOK, "C16.bound", "QueryNode.Queries#local-start", fn.Decl.Pos(), "the time the ticker is advanced from must start as %s.Local(): cron expressions are evaluated in the location of the time they are given, and the live ticker gives them time.Now() (local); a start carrying another zone makes the historical list differ from the live ticks", startP)
		c.Check(br == 2 && cont == 0, "C16.bound", "QueryNode.Queries#exits", fn.Decl.Pos(), "the loop of Queries must have exactly its two bounds as exits and skip nothing (break %d, continue/goto %d)", br, cont)
		c.Check(zeroStop, "C16.bound", "QueryNode.Queries#zero-stop", fn.Decl.Pos(), "a zero stop must default to now")
	}
}

func c16Ticker(c *core.Ctx, pkg *packages.Package) {
	info := pkg.TypesInfo
	if fn := c.Need("C16.ticker", "", "timeTicker", "Next"); fn != nil {
		eng := &an.Engine{Prog: c.P, Alias: map[string]string{an.RecvVarName(fn.Decl): "t", an.ParamName(fn.Decl.Type, 0): "now"},
			Classify: func(a an.Atom) (string, bool) {
				if strings.HasSuffix(a.Key, ".align") {
					return "align", false
				}
				return "", false
			}}
		paths, err := eng.Run(fn)
		if err != nil {
			c.Undecided("C16.ticker", "timeTicker.Next", fn.Decl.Pos(), "%v", err)
		} else {
			good := len(paths) > 0
			for _, p := range paths {
				if len(p.Rets) != 1 {
					continue
				}
				want := "now.Add(t.every)"
				alt := ""
				if p.Assign()["align"] {
					want = "now.Add(t.every).Truncate(t.every)"
					alt = "now.Truncate(t.every).Add(t.every)"
				}
				if p.Rets[0] != want && p.Rets[0] != alt {
					good = false
					c.Fail("C16.ticker", "timeTicker.Next", p.RetPos, "Next (align=%v) returns %s; the next tick after now is %s: rounding to the nearest multiple skips the first tick for a start in the second half of an interval, so the historical list differs from what a running task issues", p.Assign()["align"], p.Rets[0], want)
				}
			}
			if good {
				c.Ok("C16.ticker", "timeTicker.Next")
			}
		}
	}
	// live first tick of the aligned ticker
	if fn := c.Need("C16.ticker", "", "timeTicker", "Start"); fn != nil {
		first := ""
		rv := an.RecvVarName(fn.Decl)
		nowN := ""
		ast.Inspect(fn.Decl.Body, func(n ast.Node) bool {
			if as, ok := n.(*ast.AssignStmt); ok && len(as.Lhs) == 1 && len(as.Rhs) == 1 && as.Tok == token.DEFINE && types.ExprString(as.Rhs[0]) == "time.Now()" && nowN == "" {
				nowN = types.ExprString(as.Lhs[0])
			}
			return true
		})
		want1, want2 := nowN+".Truncate("+rv+".every).Add("+rv+".every)", nowN+".Add("+rv+".every).Truncate("+rv+".every)"
		ast.Inspect(fn.Decl.Body, func(n ast.Node) bool {
			if as, ok := n.(*ast.AssignStmt); ok && len(as.Lhs) == 1 && len(as.Rhs) == 1 && as.Tok == token.DEFINE {
				if r := types.ExprString(as.Rhs[0]); r == want1 || r == want2 {
					first = r
				}
			}
			return true
		})
		c.Check(nowN != "" && first != "", "C16.ticker", "timeTicker.Start#first-tick", fn.Decl.Pos(), "the aligned ticker's first tick must be the next multiple of every after now (found %q)", first)
	}
	// cron: same function, same clock zone
	if fn := c.Need("C16.ticker", "", "cronTicker", "Next"); fn != nil {
		ret := ""
		ast.Inspect(fn.Decl.Body, func(n ast.Node) bool {
			if r, ok := n.(*ast.ReturnStmt); ok && len(r.Results) == 1 {
				ret = types.ExprString(r.Results[0])
			}
			return true
		})
		c.Check(ret == an.RecvVarName(fn.Decl)+".expr.Next("+an.ParamName(fn.Decl.Type, 0)+")", "C16.ticker", "cronTicker.Next", fn.Decl.Pos(), "cronTicker.Next must be expr.Next(now) (found %q)", ret)
	}
	if fn := c.Need("C16.ticker", "", "cronTicker", "Start"); fn != nil {
		defs := map[string]string{}
		sent := ""
		ast.Inspect(fn.Decl.Body, func(n ast.Node) bool {
			switch x := n.(type) {
			case *ast.AssignStmt:
				if len(x.Lhs) == 1 && len(x.Rhs) == 1 {
					defs[types.ExprString(x.Lhs[0])] = types.ExprString(x.Rhs[0])
				}
			case *ast.SendStmt:
				if an.FieldSel(info, x.Chan, "cronTicker", "ticker") {
					sent = types.ExprString(x.Value)
				}
			}
			return true
		})
		rv := an.RecvVarName(fn.Decl)
		// the scheduled time by role: the local defined as expr.Next(…)
		nextN := ""
		for k, d := range defs {
			if strings.HasPrefix(d, rv+".expr.Next(") {
				nextN = k
			}
		}
		arg := strings.TrimSuffix(strings.TrimPrefix(defs[nextN], rv+".expr.Next("), ")")
		src := arg
		if d, ok := defs[arg]; ok {
			src = d
		}
		c.Check(nextN != "" && src == "time.Now()", "C16.ticker", "cronTicker.Start#clock", fn.Decl.Pos(), "the live cron tick must be expr.Next(time.Now()) on un-converted local time, as the historical list uses start.Local(); found next = %s with %s = %s: a cron expression naming hours or days fires at different instants live and historically", defs[nextN], arg, src)
		c.Check(nextN != "" && sent == nextN, "C16.ticker", "cronTicker.Start#tick-value", fn.Decl.Pos(), "the cron ticker must send the scheduled time (found %q): the query range is derived from the tick value", sent)
	}
}

func c16DBRPs(c *core.Ctx, pkg *packages.Package) {
	info := pkg.TypesInfo
	for _, e := range [][2]string{{"StartBatching", "Start"}, {"BatchQueries", "Queries"}} {
		fn := c.Need("C16.dbrps", "", "ExecutingTask", e[0])
		if fn == nil {
			continue
		}
		eng := &an.Engine{Prog: c.P,
			TrackCall: func(call *ast.CallExpr, callee *types.Func) string {
				if callee != nil && (callee.Name() == "checkDBRPs" || (callee.Name() == e[1] && core.RecvTypeName(callee) == "BatchNode")) {
					return callee.Name()
				}
				return ""
			},
			Classify: func(a an.Atom) (string, bool) {
				if a.Op == token.EQL && a.R == "nil" && an.LastCall(a.L) == "checkDBRPs" {
					return "allowed", false
				}
				if a.Op == token.EQL && strings.HasSuffix(a.L, ".Task.Type") {
					return "batch", false
				}
				return "", false
			}}
		paths, err := eng.Run(fn)
		if err != nil {
			c.Undecided("C16.dbrps", "ExecutingTask."+e[0], fn.Decl.Pos(), "%v", err)
			continue
		}
		good := len(paths) > 0
		for _, p := range paths {
			a := p.Assign()
			w := an.Seq(p, "checkDBRPs", e[1])
			last := ""
			if len(p.Rets) > 0 {
				last = p.Rets[len(p.Rets)-1]
			}
			switch {
			case !a["batch"]:
				if w != "" {
					good = false
					c.Fail("C16.dbrps", "ExecutingTask."+e[0], p.RetPos, "a non-batch task reaches [%s]", w)
				}
			case a["allowed"]:
				if w != "checkDBRPs,"+e[1] {
					good = false
					c.Fail("C16.dbrps", "ExecutingTask."+e[0], p.RetPos, "path does [%s], must do [checkDBRPs,%s]", w, e[1])
				}
			default:
				if w != "checkDBRPs" || last == "nil" {
					good = false
					c.Fail("C16.dbrps", "ExecutingTask."+e[0], p.RetPos, "when checkDBRPs refuses, %s must return that error without calling %s; path does [%s] and returns %s: the task queries databases it did not declare", e[0], e[1], w, last)
				}
			}
		}
		if good {
			c.Ok("C16.dbrps", "ExecutingTask."+e[0])
		}
	}
	if fn := c.Need("C16.dbrps", "", "ExecutingTask", "checkDBRPs"); fn != nil {
		eng := &an.Engine{Prog: c.P, ElemKeys: true, Alias: map[string]string{an.RecvVarName(fn.Decl): "et"},
			Classify: func(a an.Atom) (string, bool) {
				switch {
				case a.Op == token.EQL && a.R == "nil" && an.LastCall(a.L) == "DBRPs":
					return "listed", false
				case strings.HasPrefix(a.Key, "CreateDBRPMap(et.Task.DBRPs)[") || strings.HasPrefix(a.Key, "kapacitor.CreateDBRPMap(et.Task.DBRPs)["):
					return "declared", false
				}
				return "", false
			}}
		paths, err := eng.Run(fn)
		if err != nil {
			c.Undecided("C16.dbrps", "ExecutingTask.checkDBRPs", fn.Decl.Pos(), "%v", err)
		} else {
			good := len(paths) > 0
			sawRefuse := false
			for _, p := range paths {
				a := p.Assign()
				ret := ""
				if len(p.Rets) == 1 {
					ret = p.Rets[0]
				}
				if v, dec := a["listed"]; dec && !v {
					if ret == "nil" {
						good = false
						c.Fail("C16.dbrps", "ExecutingTask.checkDBRPs", p.RetPos, "an error listing the query's sources is answered with nil: the task is allowed")
					}
					continue
				}
				if v, dec := a["declared"]; dec && !v {
					sawRefuse = true
					if ret == "nil" || ret == "" {
						good = false
						c.Fail("C16.dbrps", "ExecutingTask.checkDBRPs", p.RetPos, "an undeclared (db, rp) does not end in an error")
					}
				}
			}
			if good && !sawRefuse {
				good = false
				c.Fail("C16.dbrps", "ExecutingTask.checkDBRPs", fn.Decl.Pos(), "checkDBRPs never tests the sources against the map built from et.Task.DBRPs")
			}
			if good {
				c.Ok("C16.dbrps", "ExecutingTask.checkDBRPs")
			}
		}
		// the listed pairs by role: first result of the DBRPs() call
		listed := "dbrps"
		ast.Inspect(fn.Decl.Body, func(n ast.Node) bool {
			if as, ok := n.(*ast.AssignStmt); ok && len(as.Lhs) == 2 && len(as.Rhs) == 1 {
				if call, ok := as.Rhs[0].(*ast.CallExpr); ok {
					if sel, ok := call.Fun.(*ast.SelectorExpr); ok && sel.Sel.Name == "DBRPs" {
						listed = types.ExprString(as.Lhs[0])
					}
				}
			}
			return true
		})
		c09LoopNoExitErr(c, "C16.dbrps", "ExecutingTask.checkDBRPs#all", fn, listed)
	}
	// Query.DBRPs: every source is recorded as (db, rp), refused, or handed to a recursive call
	if fn := c.Need("C16.dbrps", "", "Query", "DBRPs"); fn != nil {
		eng := &an.Engine{Prog: c.P, ElemKeys: true, Alias: map[string]string{an.RecvVarName(fn.Decl): "q"},
			TrackStore: func(lhs ast.Expr, key string) string {
				if ix, ok := ast.Unparen(lhs).(*ast.IndexExpr); ok {
					if tv, ok := info.Types[ix.X]; ok {
						if sl, ok := tv.Type.Underlying().(*types.Slice); ok {
							if named := core.NamedOf(sl.Elem()); named != nil && named.Obj().Name() == "DBRP" {
								return "record"
							}
						}
					}
				}
				return ""
			},
			TrackCall: func(call *ast.CallExpr, callee *types.Func) string {
				if core.IsBuiltin(info, call, "append") {
					return "record"
				}
				if callee != nil && callee == fn.Obj {
					return "recurse"
				}
				return ""
			}}
		paths, err := eng.Run(fn)
		if err != nil {
			c.Undecided("C16.dbrps", "Query.DBRPs", fn.Decl.Pos(), "%v", err)
		} else {
			good := len(paths) > 0
			seenRec := false
			for _, p := range paths {
				// the events of the iteration over the sources
				in := false
				handled := false
				entered := false
				for _, e := range p.Events {
					switch {
					case e.Kind == "loop" && strings.HasSuffix(e.Name, "q.stmt.Sources"):
						in, entered = true, true
					case e.Kind == "endloop" && strings.HasSuffix(e.Name, "q.stmt.Sources"):
						in = false
					case in && (e.Name == "record" || e.Name == "recurse"):
						handled = true
						if e.Name == "record" {
							seenRec = true
							val := e.Args[len(e.Args)-1]
							if !(strings.Contains(val, ".Database") && strings.Contains(val, ".RetentionPolicy")) {
								good = false
								c.Fail("C16.dbrps", "Query.DBRPs#pair", e.Pos, "the pair recorded for a source is not (m.Database, m.RetentionPolicy): %s", shortKey(val))
							}
						}
					}
				}
				if !entered || handled {
					continue
				}
				last := ""
				if len(p.Rets) == 2 {
					last = p.Rets[1]
				}
				if p.Exit != "return" || last == "nil" || last == "" {
					good = false
					c.Fail("C16.dbrps", "Query.DBRPs#non-measurement", p.RetPos, "a source can pass through DBRPs without being recorded, refused or recursed into (%s): the databases it reads (a subquery's, at any depth) are never compared with the task's declaration", p.Cond())
				}
			}
			if good && seenRec {
				c.Ok("C16.dbrps", "Query.DBRPs")
			} else if good {
				c.Fail("C16.dbrps", "Query.DBRPs", fn.Decl.Pos(), "no path of DBRPs records a source's database and retention policy")
			}
		}
		c09LoopNoExitErr(c, "C16.dbrps", "Query.DBRPs#all", fn, an.RecvVarName(fn.Decl)+".stmt.Sources")
	}
	if fn := c.Need("C16.dbrps", "", "BatchNode", "DBRPs"); fn != nil {
		c09LoopNoExitErr(c, "C16.dbrps", "BatchNode.DBRPs#all", fn, an.RecvVarName(fn.Decl)+".children")
		appends := false
		ast.Inspect(fn.Decl.Body, func(n ast.Node) bool {
			if call, ok := n.(*ast.CallExpr); ok && core.IsBuiltin(info, call, "append") && call.Ellipsis != token.NoPos {
				appends = true
			}
			return true
		})
		c.Check(appends, "C16.dbrps", "BatchNode.DBRPs#collect", fn.Decl.Pos(), "BatchNode.DBRPs must collect the pairs of every child query")
	}
}

// c09LoopNoExitErr: the range loop over `over` in fn is left only by returning a non-nil error (no break/continue/goto, no `return …, nil`).
func c09LoopNoExitErr(c *core.Ctx, rule, cons string, fn *core.Func, over string) {
	found := false
	bad := ""
	ast.Inspect(fn.Decl.Body, func(n ast.Node) bool {
		rs, ok := n.(*ast.RangeStmt)
		if !ok || types.ExprString(rs.X) != over {
			return true
		}
		found = true
		ast.Inspect(rs.Body, func(m ast.Node) bool {
			switch x := m.(type) {
			case *ast.FuncLit:
				return false
			case *ast.BranchStmt:
				if x.Label == nil && x.Tok == token.BREAK {
					// a break inside a nested switch/select leaves that statement only: accept when nested in one
					bad = "break"
				} else if x.Tok != token.BREAK {
					bad = x.Tok.String()
				}
			case *ast.SwitchStmt, *ast.TypeSwitchStmt, *ast.SelectStmt:
				// breaks inside leave the switch; still look for continue/return
				ast.Inspect(x, func(k ast.Node) bool {
					switch y := k.(type) {
					case *ast.BranchStmt:
						if y.Tok == token.CONTINUE || y.Tok == token.GOTO {
							bad = y.Tok.String()
						}
					case *ast.ReturnStmt:
						if len(y.Results) > 0 && types.ExprString(y.Results[len(y.Results)-1]) == "nil" {
							bad = "return nil"
						}
					}
					return true
				})
				return false
			case *ast.ReturnStmt:
				if len(x.Results) > 0 && types.ExprString(x.Results[len(x.Results)-1]) == "nil" {
					bad = "return nil"
				}
			}
			return true
		})
		return true
	})
	c.Check(found && bad == "", rule, cons, fn.Decl.Pos(), "the loop over %s must visit every element and may only be left with an error (loop found %v, exit %q)", over, found, bad)
}

// c16ProbeRules: F79, F80.
func c16ProbeRules(c *core.Ctx, root *packages.Package) {
	info := root.TypesInfo
	c.Rule("C16.userOffset", "A7: F79: the offset given with a time dimension is kept in a Query field of its own (stored by Dimensions from the dimension's Offset), read by the store that alignGroup makes into the offset literal in SetStartTime, and copied by Clone")
	c.Rule("C16.fillvalue", "A3: F80: every value stored into the statement's FillValue goes through a same-package conversion (a float64 becomes a value whose String() has no exponent): influxql prints the fill value with %v and InfluxQL has no exponent syntax")
	// F79
	dims := c.Need("C16.userOffset", "", "Query", "Dimensions")
	sst := c.Need("C16.userOffset", "", "Query", "SetStartTime")
	cl := c.Need("C16.userOffset", "", "Query", "Clone")
	if dims != nil && sst != nil && cl != nil {
		// field stored from <x>.Offset in Dimensions, other than the literal's Val
		field := ""
		ast.Inspect(dims.Decl.Body, func(nd ast.Node) bool {
			as, ok := nd.(*ast.AssignStmt)
			if !ok || len(as.Lhs) != 1 || len(as.Rhs) != 1 || !strings.HasSuffix(types.ExprString(as.Rhs[0]), ".Offset") {
				return true
			}
			if sel, ok := ast.Unparen(as.Lhs[0]).(*ast.SelectorExpr); ok {
				if s, ok := info.Selections[sel]; ok && s.Kind() == types.FieldVal {
					if nn := core.NamedOf(s.Recv()); nn != nil && nn.Obj().Name() == "Query" {
						field = sel.Sel.Name
					}
				}
			}
			return true
		})
		readInAlign := false
		ast.Inspect(sst.Decl.Body, func(nd ast.Node) bool {
			as, ok := nd.(*ast.AssignStmt)
			if !ok || len(as.Lhs) != 1 || !strings.HasSuffix(types.ExprString(as.Lhs[0]), ".groupByOffsetDL.Val") {
				return true
			}
			ast.Inspect(as.Rhs[0], func(k ast.Node) bool {
				if sel, ok := k.(*ast.SelectorExpr); ok && field != "" && an.FieldSel(info, sel, "Query", field) {
					readInAlign = true
				}
				return true
			})
			return true
		})
		copied := false
		ast.Inspect(cl.Decl.Body, func(nd ast.Node) bool {
			if kv, ok := nd.(*ast.KeyValueExpr); ok {
				if k, ok := kv.Key.(*ast.Ident); ok && k.Name == field && field != "" {
					copied = true
				}
			}
			if as, ok := nd.(*ast.AssignStmt); ok {
				for _, l := range as.Lhs {
					if field != "" && an.FieldSel(info, l, "Query", field) {
						copied = true
					}
				}
			}
			return true
		})
		c.Check(field != "" && readInAlign && copied, "C16.userOffset", "Query#alignGroup-offset", sst.Decl.Pos(), "the offset given with the time dimension does not survive alignGroup (kept in a field of its own: %q, read by the aligned store in SetStartTime: %v, copied by Clone: %v): groupBy(time(1m, -5s)).align().alignGroup() with every(30s) sends GROUP BY time(1m, 30s) where the documented result ('the alignment will occur first, and will be offset the specified amount after') is 25s; the historical queries are built from clones", field, readInAlign, copied)
	}
	// F80
	n := 0
	for _, f := range core.AllFuncs(root) {
		ast.Inspect(f.Decl.Body, func(nd ast.Node) bool {
			as, ok := nd.(*ast.AssignStmt)
			if !ok {
				return true
			}
			for i, l := range as.Lhs {
				sel, ok := ast.Unparen(l).(*ast.SelectorExpr)
				if !ok || sel.Sel.Name != "FillValue" || i >= len(as.Rhs) {
					continue
				}
				if s, ok := info.Selections[sel]; !ok || core.NamedOf(s.Recv()) == nil || core.NamedOf(s.Recv()).Obj().Name() != "SelectStatement" {
					continue
				}
				n++
				conv := false
				if call, ok := ast.Unparen(as.Rhs[i]).(*ast.CallExpr); ok {
					if m := core.Callee(info, call); m != nil && m.Pkg() == root.Types {
						conv = true
					}
				}
				c.Check(conv, "C16.fillvalue", f.Name()+"#FillValue", as.Pos(), "the fill value is stored into the statement as it is (%s): a float64 is printed by influxql with %%v, so fill(1000000.0) is sent as fill(1e+06) and fill(0.00001) as fill(1e-05) — InfluxQL has no exponent syntax, the query is rejected on every tick and the task gets no data", types.ExprString(as.Rhs[i]))
			}
			return true
		})
	}
	c.Floor("C16.fillvalue", "stores into SelectStatement.FillValue", n, 2)
}

// c16Render: F81 (known). The query that is sent is not the user's text: NewQuery parses it and every tick re-renders the parsed
// statement with influxql's printer (Query.String → stmt.String()). So every literal kind must survive that printer. The rule
// reads the printer of number literals in the influxql source that this build uses: strconv.FormatFloat with a fixed, non-negative
// precision rounds the user's literal (three decimals in the pinned version).
func c16Render(c *core.Ctx, root *packages.Package) {
	c.Rule("C16.render", "A7: F81: the statement is re-rendered on every tick with influxql's printer (Query.String returns stmt.String()), so the printer of number literals in the influxql version of this build must print with the shortest exact representation (FormatFloat precision -1), not a fixed number of decimals")
	fn := c.Need("C16.render", "", "Query", "String")
	if fn == nil {
		return
	}
	rerender := false
	ast.Inspect(fn.Decl.Body, func(nd ast.Node) bool {
		if ret, ok := nd.(*ast.ReturnStmt); ok && len(ret.Results) == 1 && strings.HasSuffix(types.ExprString(ret.Results[0]), ".stmt.String()") {
			rerender = true
		}
		return true
	})
	dep := c.P.ByPath["github.com/influxdata/influxql"]
	if dep == nil || len(dep.Syntax) == 0 {
		c.Undecided("C16.render", "influxql.NumberLiteral.String", token.NoPos, "the influxql package was not loaded from source")
		return
	}
	prec, found := "", false
	var pos token.Pos
	for _, file := range dep.Syntax {
		for _, d := range file.Decls {
			fd, ok := d.(*ast.FuncDecl)
			if !ok || fd.Recv == nil || fd.Name.Name != "String" || !strings.Contains(types.ExprString(fd.Recv.List[0].Type), "NumberLiteral") {
				continue
			}
			found = true
			ast.Inspect(fd.Body, func(nd ast.Node) bool {
				if call, ok := nd.(*ast.CallExpr); ok && len(call.Args) == 4 && strings.HasSuffix(types.ExprString(call.Fun), "FormatFloat") {
					prec = types.ExprString(call.Args[2])
					pos = call.Pos()
				}
				return true
			})
		}
	}
	if !found {
		c.Undecided("C16.render", "influxql.NumberLiteral.String", token.NoPos, "NumberLiteral.String not found in the influxql source")
		return
	}
	exact := prec == "-1" || prec == ""
	c.Check(!rerender || exact, "C16.render", "Query.String#number-literals", fn.Decl.Pos(), "the query sent on every tick is the parsed statement printed by influxql, whose NumberLiteral.String uses FormatFloat(…, 'f', %s, 64) (%s): SELECT mean(usage) * 0.0001 … WHERE usage > 0.0005 is sent as mean(usage) * 0.000 … WHERE usage > 0.001 — the user's conditions are not kept intact, silently, for every literal with more than that many decimals", prec, c.P.Pos(pos))
}
