package props

import (
	"fmt"
	"go/ast"
	"go/constant"
	"go/token"
	"go/types"
	"regexp"
	"strings"

	"golang.org/x/tools/go/packages"

	"kapcheck/an"
	"kapcheck/core"
)

func init() {
	register(&Property{
		ID:       "C17",
		Patterns: []string{"./task/backend/scheduler", "./task/backend/coordinator"},
		Run:      runC17,
		Explanation: "Scheduler invariants as structure: the queue's comparator is the strict lexicographic order (when, id), enumerated over all orderings; the per-task index nextTime[id] always holds the `when` under which the task's item sits in the queue (Schedule and process store the inserted item's own when; release and re-schedule delete with the indexed when), so a task can be found and removed; " +
			"the dispatch iterator sends nothing before next+offset, records a dispatched item for delete and re-insert (or drops it via onErr) and never blocks (select with default); the worker is chosen from the task id and the worker count only (same task ⇒ same sequential worker ⇒ never concurrent with itself); " +
			"a worker executes, then checkpoints synchronously with the occurrence time, for every item, under an unconditional recover around the executor; the loop clears `when` whenever it finds the queue empty (Schedule relies on a zero `when` to arm the timer); queue, index and when are touched under mu only. " +
			"NOT decided: exactly-once/in-order over all interleavings and clock jumps; cron arithmetic.",
		Assumptions: []string{"google/btree keeps items ordered by Less and Delete finds an item by an equal key"},
	})
}

func runC17(c *core.Ctx) {
	c17NoForward(c)
	if sp := c.P.Pkg("task/backend/scheduler"); sp != nil {
		c17Handoff(c, sp)
	}
	c.Rule("C17.less", "A8: Item.Less is irreflexive, asymmetric and equals the lexicographic order (when ascending, then id ascending) over all 9 orderings of the two keys")
	c.Rule("C17.index", "A3: wherever an item is put into the queue (ReplaceOrInsert) the index entry nextTime[item.id] is stored on the same path with the item's own `when`; wherever an item is deleted by key the key's `when` is the indexed value of that id; release removes both")
	c.Rule("C17.iter", "A1: the dispatch iterator: occurrence+offset after now ⇒ stop without sending; sent ⇒ recorded in toDelete, then updateNext ok ⇒ recorded in toInsert, error ⇒ onErr and no re-insert; worker busy ⇒ nothing recorded; the send sits in a select with a default (never blocks under the lock)")
	c.Rule("C17.affinity", "A3: the worker index is hash(task id) modulo len(workchans): it depends on nothing but the id and the worker count")
	c.Rule("C17.work", "A2/A3: a worker handles every item of its channel: Execute under a deferred unconditional recover, then UpdateLastScheduled in the worker itself (not in a detached goroutine) with the same occurrence time time.Unix(it.next, 0), whatever Execute returned")
	c.Rule("C17.idle", "A1: in the scheduler loop every path that finds the queue empty (Min()==nil) clears s.when before it goes back to waiting")
	c.Rule("C17.lockflow", "A5 (must-hold lock set over go/cfg): every use of TreeScheduler.{priorityQueue,nextTime,when} happens with s.mu held on all paths reaching it, in methods and in the function literals of the constructor (which start without the lock); unexported methods without lock operations are helpers whose call sites carry the obligation")
	c.Rule("C17.locks", "A5: priorityQueue, nextTime and when are accessed under s.mu only (process, iterator, release, resetTimer require it at their call sites)")

	pkg := c.P.Pkg("task/backend/scheduler")
	if pkg == nil {
		c.Undecided("C17.less", "anchor:task/backend/scheduler", token.NoPos, "package not loaded")
		return
	}
	c09LessWith(c, "C17.less", "task/backend/scheduler", "Item", []cmpKey{{"when", false}, {"id", false}}, func(fn *core.Func, op string) (bool, string, bool) {
		recv := an.RecvVarName(fn.Decl)
		other := an.ParamName(fn.Decl.Type, 0)
		switch {
		case strings.HasPrefix(op, recv+".") && !strings.Contains(op[len(recv)+1:], "."):
			return true, op[len(recv)+1:], true
		case strings.HasPrefix(op, other+".(Item)."):
			return false, strings.TrimPrefix(op, other+".(Item)."), true
		}
		return false, "", false
	})
	c17Index(c, pkg)
	c17Iter(c, pkg)
	c17Work(c, pkg)
	c17Idle(c, pkg)
	ruleGuardedBy(c, "C17.locks", pkg, guardSpec{typ: "TreeScheduler", mu: "mu", fields: map[string]bool{"priorityQueue": true, "nextTime": true, "when": true},
		requires: map[string]bool{"process": true, "iterator": true, "release": true, "resetTimer": true},
		exempt:   map[string]string{"NewScheduler": "constructor: the scheduler is not published yet (its loop closure locks before every access)"}})
	c17LoopLocks(c, pkg)
	c17ProbeRules(c, pkg)
	if cp := c.P.Pkg("task/backend/coordinator"); cp != nil {
		c17Coordinator(c, cp)
	} else {
		c.Undecided("C17.inactive", "anchor:task/backend/coordinator", token.NoPos, "package not loaded")
	}
	n := ruleMustHold(c, "C17.lockflow", pkg, holdSpec{Typ: "TreeScheduler", Mu: "mu", Fields: map[string]bool{"priorityQueue": true, "nextTime": true, "when": true},
		Why: "the queue, the per-task index and the armed time are written by Schedule/Release from API goroutines and by the dispatch loop: outside the lock the index and the queue are seen out of step (a task queued twice or never) or the btree is read while it is rebalanced"})
	c.Floor("C17.lockflow", "selections of guarded TreeScheduler fields", n, 10)
}

func c17Index(c *core.Ctx, pkg *packages.Package) {
	info := pkg.TypesInfo
	nIns, nDel := 0, 0
	for _, name := range []string{"Schedule", "process", "release"} {
		fn := c.Need("C17.index", "task/backend/scheduler", "TreeScheduler", name)
		if fn == nil {
			continue
		}
		eng := &an.Engine{Prog: c.P, Forward: true, ElemKeys: true,
			TrackCall: func(call *ast.CallExpr, callee *types.Func) string {
				if callee != nil && core.RecvTypeName(callee) == "BTree" && (callee.Name() == "ReplaceOrInsert" || callee.Name() == "Delete") {
					return callee.Name()
				}
				if core.IsBuiltin(info, call, "delete") {
					return "unindex"
				}
				return ""
			},
			TrackStore: func(lhs ast.Expr, key string) string {
				if ix, ok := ast.Unparen(lhs).(*ast.IndexExpr); ok && an.FieldSel(info, ix.X, "TreeScheduler", "nextTime") {
					return "index"
				}
				if an.FieldSel(info, lhs, "Item", "when") {
					return "setwhen"
				}
				return ""
			}}
		paths, err := eng.Run(fn)
		if err != nil {
			c.Undecided("C17.index", "TreeScheduler."+name, fn.Decl.Pos(), "%v", err)
			continue
		}
		good := len(paths) > 0
		for _, p := range paths {
			for i, e := range p.Events {
				switch e.Name {
				case "ReplaceOrInsert":
					nIns++
					item := c17Strip(e.Args[0])
					whenKey := item + ".when"
					for _, pe := range p.Events[:i] {
						if pe.Kind == "store" && pe.Name == "setwhen" && c17Strip(pe.Recv) == item+".when" {
							whenKey = c17Strip(pe.Args[0])
						}
					}
					found := false
					for _, pe := range p.Events {
						if pe.Kind == "store" && pe.Name == "index" {
							r := c17Strip(pe.Recv)
							k := r[strings.Index(r, "[")+1 : len(r)-1]
							v := c17Strip(pe.Args[0])
							if k == item+".id" && (v == whenKey || v == item+".when") {
								found = true
							}
						}
					}
					if !found {
						good = false
						c.Fail("C17.index", "TreeScheduler."+name+"#insert", e.Pos, "an item is inserted into the queue but nextTime[item.id] is not stored with the item's own `when` (%s) on this path: Release and re-Schedule rebuild the queue key from the index, compute another key, delete nothing and leave a ghost item that keeps firing", shortKey(whenKey))
					}
				case "Delete":
					nDel++
					_ = i
					// the key's when must be an indexed value (nextTime[...]) or the when field of a recorded item
					arg := e.Args[0]
					okk := strings.Contains(c17Strip(arg), ".nextTime[") || strings.Contains(c17Strip(arg), ".toDelete[")
					if !okk {
						good = false
						c.Fail("C17.index", "TreeScheduler."+name+"#delete-key", e.Pos, "the queue key deleted (%s) is not built from the indexed `when` of the task", shortKey(arg))
					}
				}
			}
		}
		if good {
			c.Ok("C17.index", "TreeScheduler."+name)
		}
	}
	c.Floor("C17.index", "queue insertions on paths", nIns, 2)
	c.Floor("C17.index", "queue deletions on paths", nDel, 3)
	// release removes the index entry too
	if fn := c.Need("C17.index", "task/backend/scheduler", "TreeScheduler", "release"); fn != nil {
		del, unidx := false, false
		ast.Inspect(fn.Decl.Body, func(n ast.Node) bool {
			if call, ok := n.(*ast.CallExpr); ok {
				if f := core.Callee(info, call); f != nil && f.Name() == "Delete" {
					del = true
				}
				if core.IsBuiltin(info, call, "delete") {
					unidx = true
				}
			}
			return true
		})
		c.Check(del && unidx, "C17.index", "TreeScheduler.release#both", fn.Decl.Pos(), "release must remove the queue item and the index entry (queue %v, index %v)", del, unidx)
	}
}

var reVersion = regexp.MustCompile(`#\d+`)

// c17Strip drops the engine's field-version marks: the rule compares what is stored, and no statement between the
// item's construction and its insertion writes the fields compared (they are compared as expressions over the item).
func c17Strip(k string) string { return reVersion.ReplaceAllString(k, "") }

func c17Iter(c *core.Ctx, pkg *packages.Package) {
	info := pkg.TypesInfo
	fn := c.Need("C17.iter", "task/backend/scheduler", "TreeScheduler", "iterator")
	if fn == nil {
		return
	}
	fl := findFuncLit(fn.Decl.Body)
	if fl == nil {
		c.Undecided("C17.iter", "TreeScheduler.iterator", fn.Decl.Pos(), "no iterator closure")
		return
	}
	ts := an.ParamName(fn.Decl.Type, 0)
	eng := &an.Engine{Prog: c.P, Info: info, BoolReturns: true,
		TrackCall: func(call *ast.CallExpr, callee *types.Func) string {
			if sel, ok := call.Fun.(*ast.SelectorExpr); ok && sel.Sel.Name == "onErr" {
				return "onErr"
			}
			if callee != nil && callee.Name() == "updateNext" {
				return "updateNext"
			}
			return ""
		},
		TrackStore: func(lhs ast.Expr, key string) string {
			switch {
			case an.FieldSel(info, lhs, "itemList", "toDelete"):
				return "toDelete"
			case an.FieldSel(info, lhs, "itemList", "toInsert"):
				return "toInsert"
			}
			if sel, ok := ast.Unparen(lhs).(*ast.SelectorExpr); ok && strings.HasSuffix(types.ExprString(sel), ".workchans") {
				return ""
			}
			if ix, ok := ast.Unparen(lhs).(*ast.IndexExpr); ok && strings.HasSuffix(types.ExprString(ix.X), ".workchans") {
				return "send"
			}
			return ""
		},
		Classify: func(a an.Atom) (string, bool) {
			switch {
			case strings.HasSuffix(a.Key, ".After("+ts+")") && strings.Contains(a.Key, ".next + ") && strings.Contains(a.Key, ".Offset)"):
				return "notdue", false
			case a.Op == token.EQL && a.R == "nil" && an.LastCall(a.L) == "updateNext":
				return "nexterr", true
			case a.Op == token.EQL && a.R == "nil" && a.LX != nil && !an.IsErrorType(info, a.LX):
				return "nilitem", false
			}
			return "", false
		}}
	paths, err := eng.RunBody(fl.Type, nil, fl.Body)
	if err != nil {
		c.Undecided("C17.iter", "TreeScheduler.iterator", fl.Pos(), "%v", err)
		return
	}
	// select clauses: identify by the select literal index; clause 0 = send, default = last
	hasDefault := false
	ast.Inspect(fl.Body, func(n ast.Node) bool {
		if cc, ok := n.(*ast.CommClause); ok && cc.Comm == nil {
			hasDefault = true
		}
		return true
	})
	c.Check(hasDefault, "C17.iter", "TreeScheduler.iterator#nonblocking", fl.Pos(), "the dispatch select has no default: the iterator, which runs under s.mu, blocks on a busy worker and Schedule/Release stop returning promptly")
	good := len(paths) > 0
	for _, p := range paths {
		a := p.Assign()
		sent := p.Has("send")
		w := an.Seq(p, "send", "toDelete", "updateNext", "onErr", "toInsert")
		ret := ""
		if len(p.Rets) == 1 {
			ret = p.Rets[0]
		}
		switch {
		case a["nilitem"]:
			continue
		case a["notdue"]:
			if sent || ret != "false" {
				good = false
				c.Fail("C17.iter", "TreeScheduler.iterator#notdue", p.RetPos, "an occurrence whose next+offset is still in the future is dispatched or does not stop the iteration: [%s]→%s", w, ret)
			}
		case sent:
			want := "send,toDelete,updateNext,toInsert"
			if a["nexterr"] {
				want = "send,toDelete,updateNext,onErr"
			}
			if w != want || ret != "true" {
				good = false
				c.Fail("C17.iter", "TreeScheduler.iterator#dispatched", p.RetPos, "a dispatched item must be recorded for delete and (unless its next occurrence cannot be computed) for re-insert: expected [%s]→true, path does [%s]→%s", want, w, ret)
			}
		default:
			if w != "" {
				good = false
				c.Fail("C17.iter", "TreeScheduler.iterator#not-sent", p.RetPos, "an item that was not handed to a worker is recorded as dispatched: [%s]", w)
			}
		}
	}
	if good {
		c.Ok("C17.iter", "TreeScheduler.iterator")
	}
	// C17.affinity: the index of workchans in the send
	var idx ast.Expr
	ast.Inspect(fl.Body, func(n ast.Node) bool {
		if s, ok := n.(*ast.SendStmt); ok {
			if ix, ok := ast.Unparen(s.Chan).(*ast.IndexExpr); ok {
				idx = ix.Index
			}
		}
		return true
	})
	if idx == nil {
		c.Fail("C17.affinity", "TreeScheduler.iterator#worker-index", fl.Pos(), "no send on workchans[...] found")
		return
	}
	// resolve the index variable's definition and the buffer it hashes
	defs := map[string]ast.Expr{}
	ast.Inspect(fl.Body, func(n ast.Node) bool {
		if as, ok := n.(*ast.AssignStmt); ok && len(as.Lhs) == len(as.Rhs) {
			for i, l := range as.Lhs {
				if id, ok := l.(*ast.Ident); ok {
					defs[id.Name] = as.Rhs[i]
				}
			}
		}
		return true
	})
	expr := types.ExprString(idx)
	if id, ok := idx.(*ast.Ident); ok && defs[id.Name] != nil {
		expr = types.ExprString(defs[id.Name])
	}
	fills := ""
	ast.Inspect(fl.Body, func(n ast.Node) bool {
		if call, ok := n.(*ast.CallExpr); ok {
			if f := core.Callee(info, call); f != nil && strings.HasPrefix(f.Name(), "PutUint") && len(call.Args) == 2 {
				fills = types.ExprString(call.Args[1])
			}
		}
		return true
	})
	// names by role: the item (what the closure's parameter is asserted to), the hashed buffer (argument of Sum64)
	itemN, bufN := "it", "buf"
	ast.Inspect(fl.Body, func(n ast.Node) bool {
		switch x := n.(type) {
		case *ast.AssignStmt:
			if len(x.Lhs) == 1 && len(x.Rhs) == 1 {
				if ta, ok := x.Rhs[0].(*ast.TypeAssertExpr); ok && types.ExprString(ta.Type) == "Item" {
					itemN = types.ExprString(x.Lhs[0])
				}
			}
		case *ast.CallExpr:
			if f := core.Callee(info, x); f != nil && f.Name() == "Sum64" && len(x.Args) == 1 {
				if se, ok := x.Args[0].(*ast.SliceExpr); ok {
					bufN = types.ExprString(se.X)
				}
			}
		}
		return true
	})
	rvN := an.RecvVarName(fn.Decl)
	okk := strings.Contains(expr, "Sum64("+bufN+"[:])") && strings.HasSuffix(expr, "% uint64(len("+rvN+".workchans))") && fills == "uint64("+itemN+".id)" &&
		!strings.Contains(expr, "when") && !strings.Contains(expr, "next") && !strings.Contains(expr, "Now")
	c.Check(okk, "C17.affinity", "TreeScheduler.iterator#worker-index", idx.Pos(), "the worker index is `%s` over a buffer filled from `%s`; it must be hash(uint64(it.id)) %% len(workchans) so that one task always runs on one sequential worker", expr, fills)
}

func c17Work(c *core.Ctx, pkg *packages.Package) {
	info := pkg.TypesInfo
	fn := c.Need("C17.work", "task/backend/scheduler", "TreeScheduler", "work")
	if fn == nil {
		return
	}
	var exec, chk *ast.CallExpr
	chkInGo := false
	ast.Inspect(fn.Decl.Body, func(n ast.Node) bool {
		switch x := n.(type) {
		case *ast.GoStmt:
			ast.Inspect(x, func(m ast.Node) bool {
				if call, ok := m.(*ast.CallExpr); ok {
					if f := core.Callee(info, call); f != nil && f.Name() == "UpdateLastScheduled" {
						chkInGo = true
					}
				}
				return true
			})
		case *ast.CallExpr:
			if f := core.Callee(info, x); f != nil {
				switch f.Name() {
				case "Execute":
					exec = x
				case "UpdateLastScheduled":
					chk = x
				}
			}
		}
		return true
	})
	if exec == nil || chk == nil {
		c.Fail("C17.work", "TreeScheduler.work#calls", fn.Decl.Pos(), "Execute or UpdateLastScheduled not found in the worker")
		return
	}
	c.Check(!chkInGo, "C17.work", "TreeScheduler.work#sync-checkpoint", chk.Pos(), "the checkpoint is written from a detached goroutine: writes of consecutive occurrences of one task can land out of order, the persisted last-scheduled time moves backwards and a later re-Schedule replays occurrences that already ran")
	c.Check(exec.Pos() < chk.Pos(), "C17.work", "TreeScheduler.work#order", chk.Pos(), "the checkpoint must follow the execution")
	// same occurrence time: both get the variable defined as time.Unix(it.next, 0); `it` is the range variable over the channel
	itN := "it"
	ast.Inspect(fn.Decl.Body, func(n ast.Node) bool {
		if rs, ok := n.(*ast.RangeStmt); ok && rs.Key != nil {
			itN = types.ExprString(rs.Key)
		}
		return true
	})
	tdef := ""
	ast.Inspect(fn.Decl.Body, func(n ast.Node) bool {
		if as, ok := n.(*ast.AssignStmt); ok && len(as.Lhs) == 1 && len(as.Rhs) == 1 {
			if types.ExprString(as.Rhs[0]) == "time.Unix("+itN+".next, 0)" {
				tdef = types.ExprString(as.Lhs[0])
			}
		}
		return true
	})
	argOK := tdef != "" && len(exec.Args) >= 3 && types.ExprString(exec.Args[2]) == tdef && len(chk.Args) == 3 && types.ExprString(chk.Args[2]) == tdef &&
		types.ExprString(exec.Args[1]) == itN+".id" && types.ExprString(chk.Args[1]) == itN+".id"
	if chkInGo {
		return
	}
	c.Check(argOK, "C17.work", "TreeScheduler.work#same-occurrence", chk.Pos(), "Execute and UpdateLastScheduled must both get (it.id, time.Unix(it.next, 0)); they get (%s, %s) and (%s, %s)", types.ExprString(exec.Args[1]), types.ExprString(exec.Args[2]), types.ExprString(chk.Args[1]), types.ExprString(chk.Args[2]))
	// the checkpoint is a direct statement of the range loop body (attempted for every item, whatever Execute returned)
	direct := false
	ast.Inspect(fn.Decl.Body, func(n ast.Node) bool {
		if rs, ok := n.(*ast.RangeStmt); ok {
			for _, st := range rs.Body.List {
				if ifs, ok := st.(*ast.IfStmt); ok && ifs.Init != nil && ifs.Init.Pos() <= chk.Pos() && chk.End() <= ifs.Init.End() {
					direct = true
				}
				if es, ok := st.(*ast.ExprStmt); ok && es.X == chk {
					direct = true
				}
				if as, ok := st.(*ast.AssignStmt); ok && as.Pos() <= chk.Pos() && chk.End() <= as.End() {
					direct = true
				}
			}
		}
		return true
	})
	c.Check(direct, "C17.work", "TreeScheduler.work#every-item", chk.Pos(), "the checkpoint must be attempted for every item of the worker's channel, not under a condition")
	// recover around Execute: the closure that contains Execute has a deferred unconditional recover
	recovered := false
	ast.Inspect(fn.Decl.Body, func(n ast.Node) bool {
		if fl, ok := n.(*ast.FuncLit); ok && fl.Pos() <= exec.Pos() && exec.End() <= fl.End() {
			for _, st := range fl.Body.List {
				if d, ok := st.(*ast.DeferStmt); ok {
					if dl, ok := d.Call.Fun.(*ast.FuncLit); ok {
						if u, _ := recoverPlacement(info, dl.Body); u && !repanics(info, dl.Body) {
							recovered = true
						}
					}
				}
			}
		}
		return true
	})
	c.Check(recovered, "C17.work", "TreeScheduler.work#recover", exec.Pos(), "the executor call is not under a deferred unconditional recover: a panicking task kills the worker (and the process)")
}

func c17Idle(c *core.Ctx, pkg *packages.Package) {
	info := pkg.TypesInfo
	fn := c.Need("C17.idle", "task/backend/scheduler", "", "NewScheduler")
	if fn == nil {
		return
	}
	// the loop closure: the go func literal that selects on s.timer.C
	var loop *ast.FuncLit
	ast.Inspect(fn.Decl.Body, func(n ast.Node) bool {
		if g, ok := n.(*ast.GoStmt); ok {
			if fl, ok := g.Call.Fun.(*ast.FuncLit); ok {
				hasTimer := false
				ast.Inspect(fl, func(m ast.Node) bool {
					if sel, ok := m.(*ast.SelectorExpr); ok && sel.Sel.Name == "C" && strings.HasSuffix(types.ExprString(sel.X), ".timer") {
						hasTimer = true
					}
					return true
				})
				if hasTimer {
					loop = fl
				}
			}
		}
		return true
	})
	if loop == nil {
		c.Undecided("C17.idle", "NewScheduler#loop", fn.Decl.Pos(), "scheduler loop closure not found")
		return
	}
	// every `if <x> == nil` whose x was assigned from priorityQueue.Min() must store s.when = time.Time{} in its body
	n := 0
	minVars := map[types.Object]bool{}
	ast.Inspect(loop.Body, func(nd ast.Node) bool {
		if as, ok := nd.(*ast.AssignStmt); ok && len(as.Lhs) == 1 && len(as.Rhs) == 1 {
			if call, ok := as.Rhs[0].(*ast.CallExpr); ok {
				if f := core.Callee(info, call); f != nil && f.Name() == "Min" && core.RecvTypeName(f) == "BTree" {
					if id, ok := as.Lhs[0].(*ast.Ident); ok {
						obj := info.Defs[id]
						if obj == nil {
							obj = info.Uses[id]
						}
						minVars[obj] = true
					}
				}
			}
		}
		return true
	})
	ast.Inspect(loop.Body, func(nd ast.Node) bool {
		ifs, ok := nd.(*ast.IfStmt)
		if !ok {
			return true
		}
		be, ok := ifs.Cond.(*ast.BinaryExpr)
		if !ok || be.Op != token.EQL || !an.IsNil(info, be.Y) {
			return true
		}
		id, ok := be.X.(*ast.Ident)
		if !ok || !minVars[info.Uses[id]] {
			return true
		}
		n++
		cleared := false
		for _, st := range ifs.Body.List {
			if as, ok := st.(*ast.AssignStmt); ok && len(as.Lhs) == 1 && an.FieldSel(info, as.Lhs[0], "TreeScheduler", "when") && types.ExprString(as.Rhs[0]) == "time.Time{}" {
				cleared = true
			}
		}
		c.Check(cleared, "C17.idle", "NewScheduler#loop-empty-queue", ifs.Pos(), "the loop finds the queue empty and goes back to waiting without clearing s.when: the timer is spent but `when` still holds a past time, so every later Schedule of a future occurrence sees a non-zero, earlier `when`, does not arm the timer, and the task never runs")
		return true
	})
	c.Floor("C17.idle", "empty-queue exits of the loop", n, 2)
}

// c17LoopLocks: inside the loop closure every access to the guarded fields lies between a Lock and the following Unlock (source order).
func c17LoopLocks(c *core.Ctx, pkg *packages.Package) {
	// covered by ruleGuardedBy for methods; the constructor's closure is exempt there and checked here in the simple
	// "first Lock precedes first access" form per select arm.
	info := pkg.TypesInfo
	fn := c.P.FindFunc("task/backend/scheduler", "", "NewScheduler")
	if fn == nil {
		return
	}
	ast.Inspect(fn.Decl.Body, func(n ast.Node) bool {
		cc, ok := n.(*ast.CommClause)
		if !ok {
			return true
		}
		lock := token.NoPos
		first := token.NoPos
		ast.Inspect(cc, func(m ast.Node) bool {
			switch x := m.(type) {
			case *ast.CallExpr:
				if sel, ok := x.Fun.(*ast.SelectorExpr); ok && sel.Sel.Name == "Lock" && an.FieldSel(info, sel.X, "TreeScheduler", "mu") {
					if lock == token.NoPos {
						lock = x.Pos()
					}
				}
			case *ast.SelectorExpr:
				for _, f := range []string{"priorityQueue", "nextTime", "when"} {
					if x.Sel.Name == f && an.FieldSel(info, x, "TreeScheduler", f) && first == token.NoPos {
						first = x.Pos()
					}
				}
			}
			return true
		})
		if first != token.NoPos {
			c.Check(lock != token.NoPos && lock < first, "C17.locks", "NewScheduler#loop-arm@"+c.P.Pos(cc.Pos()), first, "the scheduler loop touches the queue/index/when before taking s.mu in this select arm")
		}
		return true
	})
}

// c17ProbeRules: F82-F85.
func c17ProbeRules(c *core.Ctx, pkg *packages.Package) {
	info := pkg.TypesInfo
	c.Rule("C17.rearm", "A1: F82: where the scheduler loop finds the first item still in the future (under a test X.After(Y)), the timer is reset with the positive distance X.Sub(Y), never Y.Sub(X): a negative duration fires at once and the loop spins on the lock until the item is due")
	c.Rule("C17.offset", "A3: F83: the offset of an item, kept in whole seconds, is the schedulable's offset rounded up (math.Ceil), not cut off by the integer conversion: a cut fraction lets every run but the first start before occurrence+offset")
	c.Rule("C17.inactive", "A1: F84: Coordinator.TaskCreated schedules a task only when it is not inactive; TaskUpdated releases the task whenever its new status is inactive (whatever the old status) and schedules it otherwise")
	c.Rule("C17.crontable", "A8: F85: in the cron parser this build uses, every bit set in the step table entry skips[k] (the seconds/minutes at which */(k+1) fires) is a multiple of k+1 (the table entries are constant expressions, evaluated by the type checker)")

	// F82
	n := 0
	for _, f := range core.AllFuncs(pkg) {
		ast.Inspect(f.Decl.Body, func(nd ast.Node) bool {
			is, ok := nd.(*ast.IfStmt)
			if !ok {
				return true
			}
			call, ok := ast.Unparen(is.Cond).(*ast.CallExpr)
			if !ok || len(call.Args) != 1 {
				return true
			}
			sel, ok := call.Fun.(*ast.SelectorExpr)
			if !ok || sel.Sel.Name != "After" {
				return true
			}
			later, earlier := types.ExprString(sel.X), types.ExprString(call.Args[0])
			ast.Inspect(is.Body, func(k ast.Node) bool {
				rc, ok := k.(*ast.CallExpr)
				if !ok || len(rc.Args) != 1 {
					return true
				}
				rs, ok := rc.Fun.(*ast.SelectorExpr)
				if !ok || rs.Sel.Name != "Reset" {
					return true
				}
				sub, ok := ast.Unparen(rc.Args[0]).(*ast.CallExpr)
				if !ok || len(sub.Args) != 1 {
					return true
				}
				ss, ok := sub.Fun.(*ast.SelectorExpr)
				if !ok || ss.Sel.Name != "Sub" {
					return true
				}
				n++
				a, b := types.ExprString(ss.X), types.ExprString(sub.Args[0])
				c.Check(a == later && b == earlier, "C17.rearm", f.Name()+"#future-head", rc.Pos(), "under %s.After(%s) the timer is reset with %s.Sub(%s): that is negative (now minus the item's time), the timer fires at once and the loop spins — about two million lock acquisitions a second — until the item is due, which can be an hour away when the most frequent task was released", later, earlier, a, b)
				return true
			})
			return true
		})
	}
	c.Floor("C17.rearm", "timer resets under an After test", n, 1)

	// F83
	if fn := c.Need("C17.offset", "task/backend/scheduler", "TreeScheduler", "Schedule"); fn != nil {
		found, ceil := false, false
		ast.Inspect(fn.Decl.Body, func(nd ast.Node) bool {
			kv, ok := nd.(*ast.KeyValueExpr)
			if !ok {
				return true
			}
			if k, ok := kv.Key.(*ast.Ident); !ok || k.Name != "Offset" {
				return true
			}
			found = true
			ast.Inspect(kv.Value, func(k ast.Node) bool {
				if call, ok := k.(*ast.CallExpr); ok {
					if m := core.Callee(info, call); m != nil && m.Pkg() != nil && m.Pkg().Path() == "math" && m.Name() == "Ceil" {
						ceil = true
					}
				}
				return true
			})
			return true
		})
		c.Check(found && ceil, "C17.offset", "TreeScheduler.Schedule#offset", fn.Decl.Pos(), "the item's offset is the schedulable's offset in seconds converted to an integer without rounding up (Offset found: %v, math.Ceil: %v): with an offset of 1.5s every occurrence after the first runs at occurrence+1s, half a second before occurrence+offset", found, ceil)
	}

	// F85: the cron dependency's step table
	if dep := c.P.ByPath["github.com/influxdata/cron"]; dep == nil || len(dep.Syntax) == 0 {
		c.Undecided("C17.crontable", "cron#skips", token.NoPos, "github.com/influxdata/cron not loaded from source")
	} else {
		entries := 0
		for _, file := range dep.Syntax {
			for _, d := range file.Decls {
				gd, ok := d.(*ast.GenDecl)
				if !ok {
					continue
				}
				for _, sp := range gd.Specs {
					vs, ok := sp.(*ast.ValueSpec)
					if !ok || len(vs.Names) != 1 || vs.Names[0].Name != "skips" || len(vs.Values) != 1 {
						continue
					}
					cl, ok := vs.Values[0].(*ast.CompositeLit)
					if !ok {
						continue
					}
					for k, el := range cl.Elts {
						vt, ok := dep.TypesInfo.Types[el]
						if !ok || vt.Value == nil {
							continue
						}
						v64, okv := constant.Uint64Val(constant.ToInt(vt.Value))
						if !okv {
							continue
						}
						entries++
						step := k + 1
						for bit := 0; bit < 60; bit++ {
							if v64&(1<<uint(bit)) != 0 && bit%step != 0 {
								c.Fail("C17.crontable", fmt.Sprintf("cron#skips[%d]", k), el.Pos(), "the step table of the cron parser lets */%d fire at second/minute %d, which is not a multiple of %d (%s): cron `*/%d * * * *` runs at hh:00, hh:%d AND hh:%d — 24 extra runs a day of every such task; the executor is invoked for an occurrence that is not one of the schedule", step, bit, step, c.P.Pos(el.Pos()), step, step, bit)
							}
						}
					}
				}
			}
		}
		c.Floor("C17.crontable", "constant entries of the cron step table", entries, 20)
	}
}

// c17Coordinator: F84.
func c17Coordinator(c *core.Ctx, pkg *packages.Package) {
	info := pkg.TypesInfo
	for _, name := range []string{"TaskCreated", "TaskUpdated"} {
		fn := c.Need("C17.inactive", "task/backend/coordinator", "Coordinator", name)
		if fn == nil {
			continue
		}
		// the task whose status decides: the *Task parameter (the last one: `task`, resp. `to`)
		var taskP string
		for _, fl := range fn.Decl.Type.Params.List {
			if strings.HasSuffix(types.ExprString(fl.Type), "Task") && len(fl.Names) > 0 {
				taskP = fl.Names[len(fl.Names)-1].Name
			}
		}
		eng := &an.Engine{Prog: c.P,
			TrackCall: func(call *ast.CallExpr, callee *types.Func) string {
				if callee != nil && (callee.Name() == "Schedule" || callee.Name() == "Release") {
					return callee.Name()
				}
				return ""
			},
			Classify: func(a an.Atom) (string, bool) {
				if a.Op == token.EQL && a.L == taskP+".Status" && strings.Contains(a.R, "TaskInactive") {
					return "inactive", false
				}
				if a.Op == token.NEQ && a.L == taskP+".Status" && strings.Contains(a.R, "TaskInactive") {
					return "inactive", true
				}
				if k, ok := an.ErrNilAtom(info, a); ok && an.LastCall(k) == "NewSchedulableTask" {
					return "badtask", true
				}
				return "", false
			}}
		paths, err := eng.Run(fn)
		if err != nil {
			c.Undecided("C17.inactive", "Coordinator."+name, fn.Decl.Pos(), "%v", err)
			continue
		}
		an.CheckTable(c, "C17.inactive", "Coordinator."+name, paths, an.Table{Atoms: []string{"badtask", "inactive"},
			Outcome: func(p *an.Path) string { return an.Seq(p, "Schedule", "Release") },
			Expect: func(a map[string]bool) string {
				switch {
				case a["badtask"]:
					return ""
				case a["inactive"] && name == "TaskUpdated":
					return "Release"
				case a["inactive"]:
					return ""
				}
				return "Schedule"
			}})
	}
}
