package props

import (
	"go/ast"
	"go/token"
	"go/types"
	"strconv"
	"strings"

	"golang.org/x/tools/go/packages"

	"kapcheck/an"
	"kapcheck/core"
)

func init() {
	register(&Property{
		ID:       "C18",
		Patterns: []string{".", "./edge", "./services/replay"},
		Run:      runC18,
		Explanation: "Recording/replay fidelity decided as writer/reader agreement and structure: the stream record is written as database, retention policy, line protocol — each newline-terminated — and read as three scans bound to the same roles in the same order, the third extended over following lines while it does not parse (a string field may contain newlines); the batch JSON carrier has every field the writer sets consumed by the reader and vice versa (one reviewed exception), and its number-carrying fields must decode without losing the integer/float distinction (known finding: they do not); " +
			"the time shift is one constant per replay: assigned once, under the start-is-zero guard, applied to every point exactly when recorded-time mode is off, never otherwise; every point/batch read is collected (loops leave only with an error) and the readers close their channel on every exit; the replay completes only after every helper goroutine reported (capacity of the result channel = number of senders = number of results awaited); batch readers are handed out in archive order, which is the index order they were written in. " +
			"NOT decided: value-level round trip over all points (escaping inside influxdb's line protocol codec, float formatting), clock behaviour.",
		Assumptions: []string{"influxdb models.ParsePointsWithPrecision inverts Fields.MarshalBinary/MakeKey on one record (third-party codec)", "archive/zip lists entries in creation order"},
	})
}

func runC18(c *core.Ctx) {
	c.Rule("C18.frame", "A7: WritePointForRecording writes database, retention policy and the point bytes, each followed by a newline, in that order; readPointsFromIO binds the first scan to the database, the second to the retention policy, the third to the line protocol, and builds the point from exactly those (name, db, rp, fields, tags, time)")
	c.Rule("C18.codec", "A7: the bytes recorded for a point are the line-protocol codec's output verbatim (MakeKey and Fields.MarshalBinary, each assigned once and only copied) and the replayed point's fields are the codec's parse result verbatim (assigned once from Fields(), never stored into): any transformation between codec and framing has to be inverted exactly on the other side, which this analysis cannot establish")
	c.Rule("C18.multiline", "A2: the reader does not assume that a point is one line: while the record does not parse and input remains, the next line is appended (with the newline) and parsing is retried")
	c.Rule("C18.batchjson", "A7: every field of bufferedBatchMessageJSON/batchPointMessageJSON that MarshalJSON sets is consumed by UnmarshalJSON and every field consumed is set; exceptions are listed with a reason")
	c.Rule("C18.types", "A7: number-carrying fields of the batch JSON carrier (models.Fields = map[string]interface{}) are decoded with their integer/float distinction preserved (typed UnmarshalJSON or tagged values); decoding into interface{} turns every int64 into float64")
	c.Rule("C18.reader", "A1/A9b: F57-F59: the scanner reading a stream recording has its token limit raised explicitly and a split function other than bufio.ScanLines (lines end with a new line only); the points parsed from a record are indexed only on paths where their number was tested")
	c.Rule("C18.shift", "A1/A2: in replayStreamFromChan and replayBatchFromChan the offset `diff` is assigned only together with `start`, under the start.IsZero() guard; every point's replay time is its own time plus diff; the point's time is rewritten exactly when recTime is false (on a copy for stream points), and the collector receives the rewritten (or untouched) point; the branch of replayBatchFromChan that shifts the points also shifts the batch's own time by the same offset (F60)")
	c.Rule("C18.deliver", "A2: every point/batch read from the source is handed to the collector or channel: the loops are left only by returning an error, the stream reader skips nothing, the readers close their channel and the source on every exit (deferred), the replayers close the collector (deferred)")
	c.Rule("C18.end", "A3: the replay result is reported after every helper goroutine has reported: the capacity of the result channel equals the number of goroutines that send on it and the waiting loop receives that many results, forwarding the first error")
	c.Rule("C18.order", "A3: fileSource.BatchReaders hands out one reader per archive entry in archive order (no re-ordering), and batchArchive.Archive names entries by the batch index they are written in")

	root := c.P.Pkg("")
	edgePkg := c.P.Pkg("edge")
	rep := c.P.Pkg("services/replay")
	if root == nil || edgePkg == nil || rep == nil {
		c.Undecided("C18.frame", "anchor:packages", token.NoPos, "root, edge or services/replay not loaded")
		return
	}
	c18Frame(c, root)
	c18Codec(c, root, edgePkg)
	c18BatchJSON(c, edgePkg)
	ruleDerivedGroupID(c, edgePkg, "C18.groupid")
	c18Shift(c, root)
	c18BatchTime(c, root)
	c18Reader(c, root)
	c18Deliver(c, root)
	c18End(c, root)
	c18Order(c, rep)
}

func c18Frame(c *core.Ctx, pkg *packages.Package) {
	info := pkg.TypesInfo
	if fn := c.Need("C18.frame", "", "", "WritePointForRecording"); fn != nil {
		p := an.ParamName(fn.Decl.Type, 1)
		// the sequence of writes
		var seq []string
		ast.Inspect(fn.Decl.Body, func(n ast.Node) bool {
			call, ok := n.(*ast.CallExpr)
			if !ok {
				return true
			}
			f := core.Callee(info, call)
			if f == nil {
				return true
			}
			switch f.Name() {
			case "Fprintf":
				if len(call.Args) >= 2 {
					format := types.ExprString(call.Args[1])
					args := []string{}
					for _, a := range call.Args[2:] {
						args = append(args, types.ExprString(a))
					}
					seq = append(seq, "fmt:"+format+":"+strings.Join(args, ","))
				}
			case "Write":
				if len(call.Args) == 1 {
					seq = append(seq, "write:"+types.ExprString(call.Args[0]))
				}
			}
			return true
		})
		want := []string{`fmt:"%s\n%s\n":` + p + ".Database()," + p + ".RetentionPolicy()", "write:" + p + ".Bytes(" + an.ParamName(fn.Decl.Type, 2) + ")", `write:[]byte("\n")`}
		c.Check(strings.Join(seq, " | ") == strings.Join(want, " | "), "C18.frame", "WritePointForRecording#record", fn.Decl.Pos(), "the stream record must be written as db\\n rp\\n line-protocol\\n; the writes are %v", seq)
	}
	fn := c.Need("C18.frame", "", "", "readPointsFromIO")
	if fn == nil {
		return
	}
	// roles: variables bound to in.Text()/in.Bytes() after the k-th Scan in source order inside the loop
	type bind struct {
		scanNo int
		name   string
	}
	var binds []bind
	scans := 0
	var loop *ast.ForStmt
	ast.Inspect(fn.Decl.Body, func(n ast.Node) bool {
		if fs, ok := n.(*ast.ForStmt); ok && loop == nil {
			if call, ok := fs.Cond.(*ast.CallExpr); ok {
				if f := core.Callee(info, call); f != nil && f.Name() == "Scan" {
					loop = fs
				}
			}
		}
		return true
	})
	if loop == nil {
		c.Fail("C18.frame", "readPointsFromIO#loop", fn.Decl.Pos(), "no `for in.Scan()` loop found")
		return
	}
	scans = 1
	var retry *ast.ForStmt
	ast.Inspect(loop.Body, func(n ast.Node) bool {
		switch x := n.(type) {
		case *ast.ForStmt:
			// the continuation loop: not a new record
			retry = x
			return false
		case *ast.CallExpr:
			if f := core.Callee(info, x); f != nil && core.RecvTypeName(f) == "Scanner" {
				switch f.Name() {
				case "Scan":
					scans++
				}
			}
		case *ast.AssignStmt:
			if len(x.Lhs) >= 1 && len(x.Rhs) == 1 {
				src := ""
				ast.Inspect(x.Rhs[0], func(m ast.Node) bool {
					if cc, ok := m.(*ast.CallExpr); ok {
						if f := core.Callee(info, cc); f != nil && core.RecvTypeName(f) == "Scanner" && (f.Name() == "Text" || f.Name() == "Bytes") {
							src = f.Name()
						}
					}
					return true
				})
				if src != "" {
					binds = append(binds, bind{scans, types.ExprString(x.Lhs[0])})
				}
			}
		}
		return true
	})
	// the point constructor's arguments
	var ctor *ast.CallExpr
	var parse *ast.CallExpr
	ast.Inspect(loop.Body, func(n ast.Node) bool {
		if call, ok := n.(*ast.CallExpr); ok {
			if f := core.Callee(info, call); f != nil {
				switch f.Name() {
				case "NewPointMessage":
					ctor = call
				case "ParsePointsWithPrecision":
					if parse == nil {
						parse = call
					}
				}
			}
		}
		return true
	})
	if ctor == nil || parse == nil || len(ctor.Args) != 7 {
		c.Fail("C18.frame", "readPointsFromIO#roles", loop.Pos(), "the reader does not parse a line protocol record and build a point from it")
		return
	}
	role := map[int]string{}
	for _, b := range binds {
		role[b.scanNo] = b.name
	}
	lineArg := types.ExprString(parse.Args[0])
	okRoles := scans == 3 && types.ExprString(ctor.Args[1]) == role[1] && types.ExprString(ctor.Args[2]) == role[2] && (lineArg == role[3] || strings.HasSuffix(lineArg, ".Bytes()") || strings.HasSuffix(lineArg, ".Text()"))
	c.Check(okRoles, "C18.frame", "readPointsFromIO#roles", ctor.Pos(), "a record is three scans: 1st → database, 2nd → retention policy, 3rd → line protocol; the reader scans %d times per record, binds %v, passes (%s, %s) as (db, rp) and parses %s", scans, role, types.ExprString(ctor.Args[1]), types.ExprString(ctor.Args[2]), lineArg)
	// name, fields, tags, time from the parsed point
	mp := ""
	ast.Inspect(loop.Body, func(n ast.Node) bool {
		if as, ok := n.(*ast.AssignStmt); ok && len(as.Lhs) == 1 && len(as.Rhs) == 1 {
			if ix, ok := as.Rhs[0].(*ast.IndexExpr); ok && types.ExprString(ix.Index) == "0" {
				mp = types.ExprString(as.Lhs[0])
			}
		}
		return true
	})
	args := []string{}
	for _, a := range ctor.Args {
		args = append(args, types.ExprString(a))
	}
	okVals := mp != "" && args[0] == "string("+mp+".Name())" && strings.Contains(args[5], mp+".Tags()") && args[6] == mp+".Time().UTC()" && strings.HasPrefix(args[4], "models.Fields(")
	c.Check(okVals, "C18.frame", "readPointsFromIO#values", ctor.Pos(), "the replayed point must take name, fields, tags and time from the parsed record %s; it is built from %v", mp, args)

	// C18.multiline
	okRetry := false
	if retry != nil {
		cond := types.ExprString(retry.Cond)
		appends, reparses := false, false
		ast.Inspect(retry.Body, func(n ast.Node) bool {
			if call, ok := n.(*ast.CallExpr); ok {
				if core.IsBuiltin(info, call, "append") && strings.Contains(types.ExprString(call), "'\\n'") {
					appends = true
				}
				if f := core.Callee(info, call); f != nil && f.Name() == "ParsePointsWithPrecision" {
					reparses = true
				}
			}
			return true
		})
		errTest := false
		ast.Inspect(retry.Cond, func(n ast.Node) bool {
			if be, ok := n.(*ast.BinaryExpr); ok && be.Op == token.NEQ && an.IsNil(info, be.Y) && an.IsErrorType(info, be.X) {
				errTest = true
			}
			return true
		})
		okRetry = errTest && strings.Contains(cond, ".Scan()") && appends && reparses
	}
	// what is kept across the continuation's Scan() is a copy: Scanner.Bytes() points into the scanner's buffer, which the next
	// Scan may overwrite or compact
	if retry != nil {
		acc := ""
		ast.Inspect(retry.Body, func(n ast.Node) bool {
			if as, ok := n.(*ast.AssignStmt); ok && len(as.Lhs) == 1 && len(as.Rhs) == 1 {
				if call, ok := as.Rhs[0].(*ast.CallExpr); ok && core.IsBuiltin(info, call, "append") && acc == "" {
					acc = types.ExprString(as.Lhs[0])
				}
			}
			return true
		})
		aliased := false
		ast.Inspect(loop.Body, func(n ast.Node) bool {
			if as, ok := n.(*ast.AssignStmt); ok && as.Tok == token.DEFINE && len(as.Lhs) == 1 && types.ExprString(as.Lhs[0]) == acc && len(as.Rhs) == 1 {
				if call, ok := ast.Unparen(as.Rhs[0]).(*ast.CallExpr); ok {
					if f := core.Callee(info, call); f != nil && core.RecvTypeName(f) == "Scanner" && f.Name() == "Bytes" {
						aliased = true
					}
				}
			}
			return true
		})
		c.Check(acc != "" && !aliased, "C18.multiline", "readPointsFromIO#owned-line", loop.Pos(), "the record accumulated over several lines (%s) starts as the scanner's own buffer (in.Bytes()), which the next Scan() may overwrite: a multi-line point that sits on a buffer refill boundary is replayed as garbage and the rest of the file is misaligned", acc)
	}
	c.Check(okRetry, "C18.multiline", "readPointsFromIO#continuation", loop.Pos(), "the reader parses the third line alone: a point whose string field contains a newline is written over several lines (Fields.MarshalBinary does not escape newlines), so its recording cannot be replayed (`unbalanced quotes`) and the lines after it are taken for the next record")
}

func c18BatchJSON(c *core.Ctx, pkg *packages.Package) {
	info := pkg.TypesInfo
	// reviewed asymmetries
	exempt := map[string]string{
		"bufferedBatchMessageJSON.Group": "written for readers of the file; derived on read from name, tags and dimensions (GroupID is recomputed by the consumer)",
	}
	marshal := c.Need("C18.batchjson", "edge", "bufferedBatchMessage", "MarshalJSON")
	unmarshal := c.Need("C18.batchjson", "edge", "bufferedBatchMessage", "UnmarshalJSON")
	if marshal == nil || unmarshal == nil {
		return
	}
	written := map[string]bool{}
	ast.Inspect(marshal.Decl.Body, func(n ast.Node) bool {
		if cl, ok := n.(*ast.CompositeLit); ok {
			tn := ""
			if tv, ok := info.Types[cl]; ok {
				if named := core.NamedOf(tv.Type); named != nil {
					tn = named.Obj().Name()
				}
			}
			if tn == "bufferedBatchMessageJSON" || tn == "batchPointMessageJSON" {
				for _, el := range cl.Elts {
					if kv, ok := el.(*ast.KeyValueExpr); ok {
						written[tn+"."+types.ExprString(kv.Key)] = true
					}
				}
			}
		}
		return true
	})
	read := map[string]bool{}
	ast.Inspect(unmarshal.Decl.Body, func(n ast.Node) bool {
		if sel, ok := n.(*ast.SelectorExpr); ok {
			for _, tn := range []string{"bufferedBatchMessageJSON", "batchPointMessageJSON"} {
				if an.FieldSel(info, sel, tn, sel.Sel.Name) {
					read[tn+"."+sel.Sel.Name] = true
				}
			}
		}
		return true
	})
	// declared fields
	n := 0
	for _, tn := range []string{"bufferedBatchMessageJSON", "batchPointMessageJSON"} {
		obj := pkg.Types.Scope().Lookup(tn)
		if obj == nil {
			c.Fail("C18.batchjson", tn, marshal.Decl.Pos(), "carrier type %s not found", tn)
			continue
		}
		st := obj.Type().Underlying().(*types.Struct)
		for i := 0; i < st.NumFields(); i++ {
			f := tn + "." + st.Field(i).Name()
			n++
			w, r := written[f], read[f]
			switch {
			case w && r:
				c.Ok("C18.batchjson", f)
			case exempt[f] != "" && w && !r:
				c.Ok("C18.batchjson", f)
				c.Note("C18.batchjson: %s is written and not read: %s", f, exempt[f])
			default:
				c.Fail("C18.batchjson", f, st.Field(i).Pos(), "carrier field %s is written: %v, read back: %v — what the recorder stores of it is lost on replay (or the replayed batch gets a value that was never recorded)", f, w, r)
			}
		}
	}
	c.Floor("C18.batchjson", "carrier fields", n, 9)
	// batch-level values land where they came from: name→SetName, tags→SetTags, tmax→SetTime, byname→dimensions
	pairs := map[string]string{"SetName": "Name", "SetTags": "Tags", "SetTime": "TMax"}
	got := map[string]string{}
	ast.Inspect(unmarshal.Decl.Body, func(n ast.Node) bool {
		if call, ok := n.(*ast.CallExpr); ok && len(call.Args) == 1 {
			if f := core.Callee(info, call); f != nil && pairs[f.Name()] != "" {
				ast.Inspect(call.Args[0], func(m ast.Node) bool {
					if sel, ok := m.(*ast.SelectorExpr); ok && an.FieldSel(info, sel, "bufferedBatchMessageJSON", sel.Sel.Name) {
						got[f.Name()] = sel.Sel.Name
					}
					return true
				})
			}
		}
		return true
	})
	for _, k := range an.SortedKeys(pairs) {
		c.Check(got[k] == pairs[k], "C18.batchjson", "UnmarshalJSON#"+k, unmarshal.Decl.Pos(), "%s must receive the recorded %s (receives %q)", k, pairs[k], got[k])
	}
	// per-point values are computed in the iteration of their point: no argument of the per-point constructor is a variable that
	// lives across iterations and is assigned inside the loop (it would keep the previous point's value when this point's guard fails)
	nPer := 0
	ast.Inspect(unmarshal.Decl.Body, func(n ast.Node) bool {
		var body *ast.BlockStmt
		switch x := n.(type) {
		case *ast.RangeStmt:
			body = x.Body
		case *ast.ForStmt:
			body = x.Body
		default:
			return true
		}
		ast.Inspect(body, func(m ast.Node) bool {
			call, ok := m.(*ast.CallExpr)
			if !ok {
				return true
			}
			if f := core.Callee(info, call); f == nil || f.Name() != "NewBatchPointMessage" {
				return true
			}
			nPer++
			for _, a := range call.Args {
				if v := loopCarried(info, body, a); v != "" {
					c.Fail("C18.batchjson", "UnmarshalJSON#per-point-values", a.Pos(), "the value %s given to the replayed point is kept in a variable declared outside the loop over the points and assigned inside it: a point for which the assignment's guard fails is built with the previous point's value (a recorded point without tags of its own gets the tags of the point before it instead of the batch's)", v)
					return true
				}
			}
			c.Ok("C18.batchjson", "UnmarshalJSON#per-point-values")
			return true
		})
		return true
	})
	c.Floor("C18.batchjson", "per-point constructor calls in UnmarshalJSON's loop", nPer, 1)
	// the writer takes them from the same accessors
	wflat := map[string]string{}
	ast.Inspect(marshal.Decl.Body, func(n ast.Node) bool {
		if cl, ok := n.(*ast.CompositeLit); ok {
			for _, el := range cl.Elts {
				if kv, ok := el.(*ast.KeyValueExpr); ok {
					wflat[types.ExprString(kv.Key)] = types.ExprString(kv.Value)
				}
			}
		}
		return true
	})
	wantW := map[string]string{"Name": ".begin.Name()", "TMax": ".begin.Time()", "ByName": ".begin.Dimensions().ByName", "Fields": "].Fields()", "Time": "].Time()"}
	for _, k := range an.SortedKeys(wantW) {
		c.Check(strings.HasSuffix(wflat[k], wantW[k]), "C18.batchjson", "MarshalJSON#"+k, marshal.Decl.Pos(), "the recorded %s must come from %s (comes from %q)", k, wantW[k], wflat[k])
	}

	// C18.types
	fieldsT := c.P.Pkg("models")
	typed := false
	if fieldsT != nil {
		if obj := fieldsT.Types.Scope().Lookup("Fields"); obj != nil {
			ms := types.NewMethodSet(types.NewPointer(obj.Type()))
			for i := 0; i < ms.Len(); i++ {
				if ms.At(i).Obj().Name() == "UnmarshalJSON" {
					typed = true
				}
			}
		}
	}
	useNumber := false
	for _, fname := range []string{"UnmarshalJSON", "Decode"} {
		for _, recv := range []string{"bufferedBatchMessage", "bufferedBatchMessageDecoder"} {
			if fn := c.P.FindFunc("edge", recv, fname); fn != nil {
				ast.Inspect(fn.Decl.Body, func(n ast.Node) bool {
					if call, ok := n.(*ast.CallExpr); ok {
						if f := core.Callee(info, call); f != nil && f.Name() == "UseNumber" {
							useNumber = true
						}
					}
					return true
				})
			}
		}
	}
	c.Check(typed || useNumber, "C18.types", "bufferedBatchMessage.UnmarshalJSON#numbers", unmarshal.Decl.Pos(), "the recorded fields are decoded by encoding/json into map[string]interface{}: every int64 field of a recorded batch comes back as float64 (and loses precision beyond 2^53); neither models.Fields has a typed UnmarshalJSON nor does the decoder use UseNumber")
}

func c18Shift(c *core.Ctx, pkg *packages.Package) {
	info := pkg.TypesInfo
	for _, name := range []string{"replayStreamFromChan", "replayBatchFromChan"} {
		fn := c.Need("C18.shift", "", "", name)
		if fn == nil {
			continue
		}
		// roles: `start` is the time.Time local tested with IsZero() around the assignment of the offset; `diff` the
		// time.Duration local assigned there; `zero` the local holding the clock's Zero()
		startN, diffN, zeroN := "", "", ""
		ast.Inspect(fn.Decl.Body, func(n ast.Node) bool {
			switch x := n.(type) {
			case *ast.IfStmt:
				if call, ok := x.Cond.(*ast.CallExpr); ok && startN == "" {
					if sel, ok := call.Fun.(*ast.SelectorExpr); ok && sel.Sel.Name == "IsZero" {
						if id, ok := sel.X.(*ast.Ident); ok {
							if v, ok := info.Uses[id].(*types.Var); ok && !v.IsField() && v.Parent() != v.Pkg().Scope() {
								for _, st := range x.Body.List {
									if as, ok := st.(*ast.AssignStmt); ok && len(as.Lhs) == 1 {
										if tv, ok := info.Types[as.Lhs[0]]; ok && tv.Type.String() == "time.Duration" {
											startN, diffN = id.Name, types.ExprString(as.Lhs[0])
										}
									}
								}
							}
						}
					}
				}
			case *ast.AssignStmt:
				if len(x.Lhs) == 1 && len(x.Rhs) == 1 && x.Tok == token.DEFINE {
					if call, ok := x.Rhs[0].(*ast.CallExpr); ok {
						if sel, ok := call.Fun.(*ast.SelectorExpr); ok && sel.Sel.Name == "Zero" {
							zeroN = types.ExprString(x.Lhs[0])
						}
					}
				}
			}
			return true
		})
		if startN == "" || diffN == "" || zeroN == "" {
			c.Fail("C18.shift", name+"#once", fn.Decl.Pos(), "no offset assigned under a start.IsZero() guard found (start %q, offset %q, clock zero %q)", startN, diffN, zeroN)
			continue
		}
		parents := parentMap(fn.Decl.Body)
		good := true
		nDiff := 0
		ast.Inspect(fn.Decl.Body, func(n ast.Node) bool {
			as, ok := n.(*ast.AssignStmt)
			if !ok || as.Tok != token.ASSIGN {
				return true
			}
			for _, l := range as.Lhs {
				nm := types.ExprString(l)
				if nm != diffN && nm != startN {
					continue
				}
				if nm == diffN {
					nDiff++
					if rhs := types.ExprString(as.Rhs[0]); rhs != zeroN+".Sub("+startN+")" {
						good = false
						c.Fail("C18.shift", name+"#diff-value", as.Pos(), "diff must be zero.Sub(start) (the clock's zero minus the first recorded time); it is %s", rhs)
					}
				}
				guarded := false
				for p := parents[as]; p != nil; p = parents[p] {
					if ifs, ok := p.(*ast.IfStmt); ok && types.ExprString(ifs.Cond) == startN+".IsZero()" {
						guarded = true
					}
				}
				if !guarded {
					good = false
					c.Fail("C18.shift", name+"#once", as.Pos(), "%s is assigned outside the start.IsZero() guard: the offset changes in the middle of the replay, the replayed timestamps are no longer the recorded ones plus one constant", nm)
				}
			}
			return true
		})
		if nDiff != 1 {
			good = false
			c.Fail("C18.shift", name+"#once", fn.Decl.Pos(), "diff must be assigned exactly once (found %d)", nDiff)
		}
		if good {
			c.Ok("C18.shift", name+"#once")
		}
	}
	// stream: path table
	if fn := c.Need("C18.shift", "", "", "replayStreamFromChan"); fn != nil {
		eng := &an.Engine{Prog: c.P, ElemKeys: true,
			TrackCall: func(call *ast.CallExpr, callee *types.Func) string {
				if callee == nil {
					return ""
				}
				switch callee.Name() {
				case "ShallowCopy", "SetTime", "Until", "CollectPoint":
					return callee.Name()
				}
				return ""
			},
			Classify: func(a an.Atom) (string, bool) {
				if a.Key == an.ParamName(fn.Decl.Type, 3) {
					return "rec", false
				}
				return "", false
			}}
		paths, err := eng.Run(fn)
		if err != nil {
			c.Undecided("C18.shift", "replayStreamFromChan#table", fn.Decl.Pos(), "%v", err)
		} else {
			good, seen := true, false
			for _, p := range paths {
				col := p.Find("CollectPoint")
				if col == nil {
					continue
				}
				seen = true
				rec, dec := p.Assign()["rec"]
				w := an.Seq(p, "ShallowCopy", "SetTime", "Until", "CollectPoint")
				want := "Until,CollectPoint"
				if !rec {
					want = "ShallowCopy,SetTime,Until,CollectPoint"
				}
				if !dec || w != want {
					good = false
					c.Fail("C18.shift", "replayStreamFromChan#table", col.Pos, "with recTime=%v the replay of a point does [%s], must do [%s]", rec, w, want)
					continue
				}
				until := p.Find("Until")
				if !strings.Contains(until.Args[0], ".Time().Add(") || !strings.HasSuffix(until.Args[0], ".UTC()") {
					good = false
					c.Fail("C18.shift", "replayStreamFromChan#wait", until.Pos, "the replay must wait until the point's own time plus diff; it waits until %s", shortKey(until.Args[0]))
				}
				if !rec {
					st := p.Find("SetTime")
					if st.Args[0] != until.Args[0] || !strings.HasSuffix(st.Recv, ".ShallowCopy()") || col.Args[0] != st.Recv {
						good = false
						c.Fail("C18.shift", "replayStreamFromChan#rewrite", st.Pos, "the shifted time must be set on a copy of the point and that copy collected: SetTime(%s) on %s, collected %s", shortKey(st.Args[0]), shortKey(st.Recv), shortKey(col.Args[0]))
					}
				} else if strings.Contains(col.Args[0], "ShallowCopy") {
					good = false
					c.Fail("C18.shift", "replayStreamFromChan#rewrite", col.Pos, "in recorded-time mode the point must be collected untouched")
				}
			}
			if good && seen {
				c.Ok("C18.shift", "replayStreamFromChan#table")
			} else if !seen {
				c.Fail("C18.shift", "replayStreamFromChan#table", fn.Decl.Pos(), "no path collects a point")
			}
		}
	}
	// batch: the shift loop covers every point, under !recTime only
	if fn := c.Need("C18.shift", "", "", "replayBatchFromChan"); fn != nil {
		var shiftLoop *ast.RangeStmt
		guard := ""
		parents := parentMap(fn.Decl.Body)
		ast.Inspect(fn.Decl.Body, func(n ast.Node) bool {
			rs, ok := n.(*ast.RangeStmt)
			if !ok || len(an.Effective(rs.Body.List)) != 1 {
				return true
			}
			// the loop whose body is one SetTime on the ranged slice's element
			if es, ok := an.Effective(rs.Body.List)[0].(*ast.ExprStmt); !ok || !strings.HasPrefix(types.ExprString(es.X), types.ExprString(rs.X)+"[") || !strings.Contains(types.ExprString(es.X), "].SetTime(") {
				return true
			}
			shiftLoop = rs
			for p := parents[rs]; p != nil; p = parents[p] {
				if ifs, ok := p.(*ast.IfStmt); ok {
					in := false
					for _, st := range ifs.Body.List {
						if st.Pos() <= rs.Pos() && rs.End() <= st.End() {
							in = true
						}
					}
					if in {
						guard = types.ExprString(ifs.Cond)
					} else {
						guard = "else of " + types.ExprString(ifs.Cond)
					}
					break
				}
			}
			return true
		})
		okLoop := false
		if shiftLoop != nil && len(an.Effective(shiftLoop.Body.List)) == 1 {
			if es, ok := an.Effective(shiftLoop.Body.List)[0].(*ast.ExprStmt); ok {
				sl, ix := types.ExprString(shiftLoop.X), types.ExprString(shiftLoop.Key)
				txt := types.ExprString(es.X)
				pre, post := sl+"["+ix+"].SetTime("+sl+"["+ix+"].Time().Add(", ").UTC())"
				if strings.HasPrefix(txt, pre) && strings.HasSuffix(txt, post) {
					// the offset added is the variable assigned under the IsZero guard (a time.Duration local)
					if id := txt[len(pre) : len(txt)-len(post)]; id != "" && !strings.ContainsAny(id, "().") {
						okLoop = true
					}
				}
			}
		}
		c.Check(okLoop && guard == "!"+an.ParamName(fn.Decl.Type, 3), "C18.shift", "replayBatchFromChan#all-points", fn.Decl.Pos(), "unless recTime is set every point of the batch must get its own time plus diff (loop over all points: %v, guard %q)", okLoop, guard)
	}
	_ = info
}

func c18Deliver(c *core.Ctx, pkg *packages.Package) {
	info := pkg.TypesInfo
	type spec struct{ fn, over, must string }
	for _, s := range []spec{{"replayStreamFromChan", "points", "CollectPoint"}, {"replayBatchFromChan", "batches", "CollectBatch"}} {
		fn := c.Need("C18.deliver", "", "", s.fn)
		if fn == nil {
			continue
		}
		s.over = an.ParamName(fn.Decl.Type, 1) // the channel parameter
		// every path through one iteration collects or returns an error
		eng := &an.Engine{Prog: c.P, ElemKeys: true,
			TrackCall: func(call *ast.CallExpr, callee *types.Func) string {
				if callee != nil && callee.Name() == s.must {
					return "collect"
				}
				return ""
			}}
		paths, err := eng.Run(fn)
		if err != nil {
			c.Undecided("C18.deliver", s.fn, fn.Decl.Pos(), "%v", err)
			continue
		}
		good := len(paths) > 0
		for _, p := range paths {
			entered := false
			for _, e := range p.Events {
				if e.Kind == "loop" && strings.HasSuffix(e.Name, "range "+s.over) {
					entered = true
				}
			}
			if !entered || p.Has("collect") {
				continue
			}
			good = false
			c.Fail("C18.deliver", s.fn+"#every-item", p.RetPos, "an item read from %s can pass the loop without being handed to the collector (%s)", s.over, p.Cond())
		}
		if good {
			c.Ok("C18.deliver", s.fn+"#every-item")
		}
		if s.fn == "replayStreamFromChan" {
			c09LoopNoExitErr(c, "C18.deliver", s.fn+"#loop", fn, s.over)
		}
		c.Check(c18Defers(info, fn, "Close", an.ParamName(fn.Decl.Type, 2)), "C18.deliver", s.fn+"#close", fn.Decl.Pos(), "the collector must be closed when the replay ends (deferred collector.Close())")
	}
	if fn := c.Need("C18.deliver", "", "", "readPointsFromIO"); fn != nil {
		c.Check(c18DefersClose(info, fn, an.ParamName(fn.Decl.Type, 1)) && c18Defers(info, fn, "Close", an.ParamName(fn.Decl.Type, 0)), "C18.deliver", "readPointsFromIO#close", fn.Decl.Pos(), "the reader must close its channel and its source on every exit (deferred): the replayer's loop ends only when the channel is closed")
		// nothing is skipped: no continue in the loop, one send per record
		cont, sends := 0, 0
		ast.Inspect(fn.Decl.Body, func(n ast.Node) bool {
			switch x := n.(type) {
			case *ast.BranchStmt:
				cont++
			case *ast.SendStmt:
				if types.ExprString(x.Chan) == an.ParamName(fn.Decl.Type, 1) {
					sends++
				}
			}
			return true
		})
		c.Check(cont == 0 && sends == 1, "C18.deliver", "readPointsFromIO#every-record", fn.Decl.Pos(), "every record read must be sent on (branch statements %d, sends %d)", cont, sends)
	}
	if fn := c.Need("C18.deliver", "", "", "readBatchFromIO"); fn != nil {
		c.Check(c18DefersClose(info, fn, an.ParamName(fn.Decl.Type, 1)) && c18Defers(info, fn, "Close", an.ParamName(fn.Decl.Type, 0)), "C18.deliver", "readBatchFromIO#close", fn.Decl.Pos(), "the batch reader must close its channel and its source on every exit (deferred)")
		// decode error is returned
		eng := &an.Engine{Prog: c.P,
			TrackStore: func(lhs ast.Expr, key string) string {
				if types.ExprString(lhs) == an.ParamName(fn.Decl.Type, 1) {
					return "send"
				}
				return ""
			},
			Classify: func(a an.Atom) (string, bool) {
				if a.Op == token.EQL && a.R == "nil" && an.LastCall(a.L) == "Decode" {
					return "decoded", false
				}
				if strings.HasPrefix(a.Key, "len(") && strings.Contains(a.Key, ".Points()) == 0") {
					return "empty", false
				}
				return "", false
			}}
		paths, err := eng.Run(fn)
		if err != nil {
			c.Undecided("C18.deliver", "readBatchFromIO", fn.Decl.Pos(), "%v", err)
		} else {
			good := len(paths) > 0
			for _, p := range paths {
				a := p.Assign()
				v, dec := a["decoded"]
				if !dec {
					continue
				}
				switch {
				case !v:
					if len(p.Rets) != 1 || p.Rets[0] == "nil" {
						good = false
						c.Fail("C18.deliver", "readBatchFromIO#decode-error", p.RetPos, "a decode error is not returned: a damaged recording replays as a shorter one without any error")
					}
				case !a["empty"] && !p.Has("send"):
					good = false
					c.Fail("C18.deliver", "readBatchFromIO#every-batch", p.RetPos, "a decoded non-empty batch is not sent on (%s)", p.Cond())
				}
			}
			if good {
				c.Ok("C18.deliver", "readBatchFromIO")
			}
		}
	}
}

func c18Defers(info *types.Info, fn *core.Func, method, recv string) bool {
	found := false
	for _, st := range fn.Decl.Body.List {
		if d, ok := st.(*ast.DeferStmt); ok {
			if sel, ok := d.Call.Fun.(*ast.SelectorExpr); ok && sel.Sel.Name == method && types.ExprString(sel.X) == recv {
				found = true
			}
		}
		if _, ok := st.(*ast.ReturnStmt); ok && !found {
			return false
		}
	}
	return found
}

func c18DefersClose(info *types.Info, fn *core.Func, ch string) bool {
	for _, st := range fn.Decl.Body.List {
		if d, ok := st.(*ast.DeferStmt); ok && core.IsBuiltin(info, d.Call, "close") && types.ExprString(d.Call.Args[0]) == ch {
			return true
		}
		switch st.(type) {
		case *ast.DeferStmt, *ast.AssignStmt, *ast.DeclStmt:
		default:
			return false
		}
	}
	return false
}

func c18End(c *core.Ctx, pkg *packages.Package) {
	info := pkg.TypesInfo
	for _, name := range []string{"ReplayStreamFromIO", "ReplayBatchFromChan", "ReplayBatchFromIO"} {
		fn := c.Need("C18.end", "", "", name)
		if fn == nil {
			continue
		}
		// roles: the result channel is what the function returns at its end; the collecting channel is the other local
		// `make(chan error, n)` (the one the helper goroutines send to)
		errC, allErrs := "", ""
		if last, ok := fn.Decl.Body.List[len(fn.Decl.Body.List)-1].(*ast.ReturnStmt); ok && len(last.Results) == 1 {
			errC = types.ExprString(last.Results[0])
		}
		ast.Inspect(fn.Decl.Body, func(n ast.Node) bool {
			if as, ok := n.(*ast.AssignStmt); ok && len(as.Lhs) == 1 && len(as.Rhs) == 1 && as.Tok == token.DEFINE {
				if call, ok := as.Rhs[0].(*ast.CallExpr); ok && core.IsBuiltin(info, call, "make") && len(call.Args) == 2 && types.ExprString(call.Args[0]) == "chan error" {
					if nm := types.ExprString(as.Lhs[0]); nm != errC {
						allErrs = nm
					}
				}
			}
			return true
		})
		// capacity expression of allErrs
		capExpr := ""
		ast.Inspect(fn.Decl.Body, func(n ast.Node) bool {
			if as, ok := n.(*ast.AssignStmt); ok && len(as.Lhs) == 1 && types.ExprString(as.Lhs[0]) == allErrs {
				if call, ok := as.Rhs[0].(*ast.CallExpr); ok && core.IsBuiltin(info, call, "make") && len(call.Args) == 2 {
					capExpr = types.ExprString(call.Args[1])
				}
			}
			return true
		})
		// senders: go statements whose body sends on allErrs, outside / inside a range loop
		outside, inside := 0, 0
		over := ""
		parents := parentMap(fn.Decl.Body)
		var waiter *ast.FuncLit
		ast.Inspect(fn.Decl.Body, func(n ast.Node) bool {
			g, ok := n.(*ast.GoStmt)
			if !ok {
				return true
			}
			sends, recvs := 0, 0
			ast.Inspect(g, func(m ast.Node) bool {
				switch x := m.(type) {
				case *ast.SendStmt:
					if types.ExprString(x.Chan) == allErrs {
						sends++
					}
				case *ast.UnaryExpr:
					if x.Op == token.ARROW && types.ExprString(x.X) == allErrs {
						recvs++
					}
				}
				return true
			})
			if recvs > 0 {
				waiter, _ = g.Call.Fun.(*ast.FuncLit)
			}
			if sends == 0 {
				return false
			}
			inLoop := false
			for p := parents[g]; p != nil; p = parents[p] {
				if rs, ok := p.(*ast.RangeStmt); ok {
					inLoop = true
					over = types.ExprString(rs.X)
				}
			}
			if inLoop {
				inside += sends
			} else {
				outside += sends
			}
			return false
		})
		want := ""
		switch {
		case inside == 0:
			want = itoa(outside)
		case inside == 1 && outside == 0:
			want = "len(" + over + ")"
		case outside == 0:
			want = "len(" + over + ")*" + itoa(inside)
		default:
			want = "len(" + over + ")*" + itoa(inside) + "+" + itoa(outside)
		}
		norm := strings.ReplaceAll(capExpr, " ", "")
		c.Check(norm == want, "C18.end", name+"#capacity", fn.Decl.Pos(), "%d goroutine(s) per element of %s and %d other(s) report on allErrs, so its capacity — which is also the number of results the waiter takes — must be %s; it is %q: the replay is reported finished while a replayer is still delivering (its last items and its error are lost)", inside, over, outside, want, capExpr)
		// the waiter
		okWait := false
		if waiter != nil {
			var loop *ast.ForStmt
			ast.Inspect(waiter.Body, func(n ast.Node) bool {
				if fs, ok := n.(*ast.ForStmt); ok {
					loop = fs
				}
				return true
			})
			if loop != nil && loop.Cond != nil && strings.HasSuffix(types.ExprString(loop.Cond), " < cap("+allErrs+")") {
				// first error forwarded, nil at the end
				sendsErr, sendsNil := false, false
				ast.Inspect(waiter.Body, func(n ast.Node) bool {
					if s, ok := n.(*ast.SendStmt); ok && types.ExprString(s.Chan) == errC {
						if types.ExprString(s.Value) == "nil" {
							sendsNil = s.Pos() > loop.End()
						} else {
							sendsErr = true
						}
					}
					return true
				})
				okWait = sendsErr && sendsNil
			}
		}
		c.Check(okWait, "C18.end", name+"#waiter", fn.Decl.Pos(), "the waiter must take cap(allErrs) results, forward the first error and report nil only after all of them")
	}
}

func itoa(n int) string { return strconv.Itoa(n) }

func c18Order(c *core.Ctx, pkg *packages.Package) {
	info := pkg.TypesInfo
	if fn := c.Need("C18.order", "services/replay", "fileSource", "BatchReaders"); fn != nil {
		var rs *ast.RangeStmt
		reorder := ""
		ast.Inspect(fn.Decl.Body, func(n ast.Node) bool {
			switch x := n.(type) {
			case *ast.RangeStmt:
				rs = x
			case *ast.CallExpr:
				if f := core.Callee(info, x); f != nil && f.Pkg() != nil && (f.Pkg().Path() == "sort" || f.Pkg().Path() == "slices") {
					reorder = f.Pkg().Path() + "." + f.Name()
				}
			}
			return true
		})
		okk := false
		if rs != nil && rs.Key != nil {
			over := types.ExprString(rs.X)
			key := types.ExprString(rs.Key)
			val := ""
			if rs.Value != nil {
				val = types.ExprString(rs.Value)
			}
			// rcs[key] = opened(val)
			stored := false
			ast.Inspect(rs.Body, func(n ast.Node) bool {
				if as, ok := n.(*ast.AssignStmt); ok && len(as.Lhs) == 1 {
					if ix, ok := as.Lhs[0].(*ast.IndexExpr); ok && types.ExprString(ix.Index) == key {
						stored = true
					}
				}
				return true
			})
			opens := false
			ast.Inspect(rs.Body, func(n ast.Node) bool {
				if call, ok := n.(*ast.CallExpr); ok {
					if sel, ok := call.Fun.(*ast.SelectorExpr); ok && sel.Sel.Name == "Open" && types.ExprString(sel.X) == val {
						opens = true
					}
				}
				return true
			})
			okk = strings.HasSuffix(over, ".File") && an.FieldSel(info, rs.X, "Reader", "File") && stored && opens
		}
		c.Check(okk && reorder == "", "C18.order", "fileSource.BatchReaders", fn.Decl.Pos(), "the i-th reader must be the i-th entry of the archive as stored (entries are written in batch-index order); the function iterates %v and re-orders with %q: with ten or more batch queries a lexicographic order hands query 10's data to query 2's collector", okk, reorder)
	}
	if fn := c.Need("C18.order", "services/replay", "batchArchive", "Archive"); fn != nil {
		idx := an.ParamName(fn.Decl.Type, 0)
		okk := false
		ast.Inspect(fn.Decl.Body, func(n ast.Node) bool {
			if call, ok := n.(*ast.CallExpr); ok {
				if f := core.Callee(info, call); f != nil && f.Name() == "Create" && len(call.Args) == 1 {
					okk = strings.Contains(types.ExprString(call.Args[0]), idx)
				}
			}
			return true
		})
		c.Check(okk, "C18.order", "batchArchive.Archive", fn.Decl.Pos(), "an archive entry must be named by its batch index")
	}
	// the recorder archives in index order: Archive(i) is called with the range key of a loop over the sources, sequentially (not in a goroutine)
	n := 0
	for _, fn := range core.AllFuncs(pkg) {
		if fn.Decl.Body == nil {
			continue
		}
		parents := parentMap(fn.Decl.Body)
		ast.Inspect(fn.Decl.Body, func(nd ast.Node) bool {
			call, ok := nd.(*ast.CallExpr)
			if !ok {
				return true
			}
			f := core.Callee(info, call)
			if f == nil || f.Name() != "Archive" || len(call.Args) != 1 {
				return true
			}
			if _, isIface := f.Type().(*types.Signature).Recv().Type().Underlying().(*types.Interface); !isIface && core.RecvTypeName(f) != "batchArchive" {
				return true
			}
			n++
			arg := types.ExprString(call.Args[0])
			if arg == "0" {
				c.Ok("C18.order", fn.Name()+"#archive-index")
				return true
			}
			inGo, key := false, ""
			for p := parents[call]; p != nil; p = parents[p] {
				switch x := p.(type) {
				case *ast.GoStmt:
					inGo = true
				case *ast.FuncLit:
					if _, ok := parents[x].(*ast.CallExpr); ok {
						if _, ok := parents[parents[x]].(*ast.GoStmt); ok {
							inGo = true
						}
					}
				case *ast.RangeStmt:
					if x.Key != nil && key == "" {
						key = types.ExprString(x.Key)
					}
				}
			}
			c.Check(!inGo && key == arg, "C18.order", fn.Name()+"#archive-index", call.Pos(), "archive entries must be created sequentially in batch-index order (Archive(%s) with loop key %q, in goroutine: %v): zip lists entries in creation order and the replay assigns readers to collectors by position", arg, key, inGo)
			return true
		})
	}
	c.Floor("C18.order", "Archive call sites", n, 2)
}

// c18Codec: no transformation between the line protocol codec and the record framing.
func c18Codec(c *core.Ctx, root, edgePkg *packages.Package) {
	// writer: pointMessage.Bytes
	if fn := c.Need("C18.codec", "edge", "pointMessage", "Bytes"); fn != nil {
		info := edgePkg.TypesInfo
		assigns := map[string][]string{}
		roleObj := map[string]types.Object{}
		ast.Inspect(fn.Decl.Body, func(n ast.Node) bool {
			if as, ok := n.(*ast.AssignStmt); ok && len(as.Lhs) == len(as.Rhs) {
				for i, l := range as.Lhs {
					id, ok := l.(*ast.Ident)
					if !ok {
						continue
					}
					src := "?"
					if call, ok := as.Rhs[i].(*ast.CallExpr); ok {
						if f := core.Callee(info, call); f != nil {
							src = f.Name()
						}
					}
					obj := info.Defs[id]
					if obj == nil {
						obj = info.Uses[id]
					}
					// roles: `key` is the local first assigned from MakeKey, `fields` the one first assigned from MarshalBinary
					switch {
					case src == "MakeKey" && roleObj["key"] == nil:
						roleObj["key"] = obj
					case src == "MarshalBinary" && roleObj["fields"] == nil:
						roleObj["fields"] = obj
					}
					for role, o := range roleObj {
						if o != nil && o == obj {
							assigns[role] = append(assigns[role], src)
						}
					}
				}
			}
			return true
		})
		okk := strings.Join(assigns["key"], ",") == "MakeKey" && strings.Join(assigns["fields"], ",") == "MarshalBinary"
		// every other use of key/fields is as the source of copy() or in len()
		bad := ""
		parents := parentMap(fn.Decl.Body)
		ast.Inspect(fn.Decl.Body, func(n ast.Node) bool {
			id, ok := n.(*ast.Ident)
			if !ok || info.Uses[id] == nil || (info.Uses[id] != roleObj["key"] && info.Uses[id] != roleObj["fields"]) {
				return true
			}
			if v, isVar := info.Uses[id].(*types.Var); !isVar || v.IsField() {
				return true
			}
			switch p := parents[id].(type) {
			case *ast.CallExpr:
				if core.IsBuiltin(info, p, "len") || (core.IsBuiltin(info, p, "copy") && len(p.Args) == 2 && p.Args[1] == ast.Expr(id)) {
					return true
				}
				bad = types.ExprString(p)
			case *ast.AssignStmt:
				for _, l := range p.Lhs {
					if l == ast.Expr(id) {
						return true
					}
				}
				bad = "assignment from " + id.Name
			default:
				bad = types.ExprString(parents[id].(ast.Expr))
			}
			return true
		})
		c.Check(okk && bad == "", "C18.codec", "pointMessage.Bytes#verbatim", fn.Decl.Pos(), "Bytes must return key, fields and time exactly as the line protocol codec produced them (key from %v, fields from %v, other use %q): a rewrite of the encoded bytes (e.g. escaping newlines) changes what the parser on the replay side reads — literal backslash sequences in string fields come back altered", assigns["key"], assigns["fields"], bad)
	}
	// reader: fields of the parsed point
	if fn := c.Need("C18.codec", "", "", "readPointsFromIO"); fn != nil {
		info := root.TypesInfo
		var ctor *ast.CallExpr
		ast.Inspect(fn.Decl.Body, func(n ast.Node) bool {
			if call, ok := n.(*ast.CallExpr); ok {
				if f := core.Callee(info, call); f != nil && f.Name() == "NewPointMessage" {
					ctor = call
				}
			}
			return true
		})
		if ctor == nil || len(ctor.Args) != 7 {
			return
		}
		// the identifiers feeding fields and tags
		for _, ai := range []int{4, 5} {
			var ids []*ast.Ident
			ast.Inspect(ctor.Args[ai], func(n ast.Node) bool {
				if id, ok := n.(*ast.Ident); ok {
					if _, isVar := info.Uses[id].(*types.Var); isVar {
						ids = append(ids, id)
					}
				}
				return true
			})
			for _, id := range ids {
				obj := info.Uses[id]
				nAssign, stores, ranged := 0, 0, 0
				ast.Inspect(fn.Decl.Body, func(n ast.Node) bool {
					switch x := n.(type) {
					case *ast.AssignStmt:
						for _, l := range x.Lhs {
							if lid, ok := l.(*ast.Ident); ok && (info.Defs[lid] == obj || info.Uses[lid] == obj) {
								nAssign++
							}
							if ix, ok := l.(*ast.IndexExpr); ok {
								if xid, ok := ix.X.(*ast.Ident); ok && info.Uses[xid] == obj {
									stores++
								}
							}
						}
					case *ast.RangeStmt:
						if xid, ok := x.X.(*ast.Ident); ok && info.Uses[xid] == obj {
							ranged++
						}
					case *ast.CallExpr:
						if core.IsBuiltin(info, x, "delete") && len(x.Args) == 2 {
							if xid, ok := x.Args[0].(*ast.Ident); ok && info.Uses[xid] == obj {
								stores++
							}
						}
					}
					return true
				})
				c.Check(nAssign == 1 && stores == 0, "C18.codec", "readPointsFromIO#verbatim-"+id.Name, ctor.Args[ai].Pos(), "the replayed point must carry what the parser returned for %s, untouched (assigned %d times, modified in place %d times): a rewrite after parsing (e.g. un-escaping) is applied to text the recorder never escaped", id.Name, nAssign, stores)
			}
		}
	}
}

// loopCarried names a variable used in e that is declared outside the loop body and assigned inside it without being assigned
// unconditionally, as a top-level statement of the body, before the use: its value may come from an earlier iteration.
// Accumulators (x = append(x, …), x += …) are what loops are for and are not reported when e is not built from them.
func loopCarried(info *types.Info, body *ast.BlockStmt, e ast.Expr) string {
	found := ""
	ast.Inspect(e, func(n ast.Node) bool {
		id, ok := n.(*ast.Ident)
		if !ok || found != "" {
			return found == ""
		}
		v, ok := info.Uses[id].(*types.Var)
		if !ok || v.IsField() || (body.Pos() <= v.Pos() && v.Pos() <= body.End()) || v.Pkg() == nil || v.Parent() == v.Pkg().Scope() {
			return true
		}
		assignedInside, resetFirst := false, false
		for _, st := range body.List {
			if st.End() > e.Pos() && st.Pos() <= e.Pos() {
				break // the statement that contains the use
			}
			if as, ok := st.(*ast.AssignStmt); ok {
				for _, l := range as.Lhs {
					if lid, ok := l.(*ast.Ident); ok && info.Uses[lid] == v {
						resetFirst = true
					}
				}
			}
			if resetFirst {
				break
			}
			ast.Inspect(st, func(m ast.Node) bool {
				if as, ok := m.(*ast.AssignStmt); ok {
					for _, l := range as.Lhs {
						if lid, ok := l.(*ast.Ident); ok && info.Uses[lid] == v {
							assignedInside = true
						}
					}
				}
				return true
			})
		}
		if !resetFirst && !assignedInside {
			// assigned later in the body (after the use)?
			ast.Inspect(body, func(m ast.Node) bool {
				if as, ok := m.(*ast.AssignStmt); ok {
					for _, l := range as.Lhs {
						if lid, ok := l.(*ast.Ident); ok && info.Uses[lid] == v {
							assignedInside = true
						}
					}
				}
				return true
			})
		}
		if assignedInside && !resetFirst {
			found = id.Name
		}
		return true
	})
	return found
}

// c18Reader: F57–F59, the scanner that reads a stream recording.
//
//	F58: its token limit is raised explicitly (a point is as long as its fields are; the default 64 KiB ends the replay);
//	F59: its split function is not bufio.ScanLines (which also drops a carriage return before the new line — data of a string
//	     field — while the continuation lines are joined with new lines only);
//	F57: the result of the line-protocol parser is indexed only on paths where its length was tested (the parser returns no
//	     point and no error for a blank or comment line; the reader goroutine has no recover).
func c18Reader(c *core.Ctx, pkg *packages.Package) {
	fn := c.Need("C18.reader", "", "", "readPointsFromIO")
	if fn == nil {
		return
	}
	info := pkg.TypesInfo
	var scanner types.Object
	ast.Inspect(fn.Decl.Body, func(nd ast.Node) bool {
		if as, ok := nd.(*ast.AssignStmt); ok && len(as.Lhs) == 1 && len(as.Rhs) == 1 {
			if call, ok := as.Rhs[0].(*ast.CallExpr); ok {
				if f := core.Callee(info, call); f != nil && f.Pkg() != nil && f.Pkg().Path() == "bufio" && f.Name() == "NewScanner" {
					if id, ok := as.Lhs[0].(*ast.Ident); ok {
						scanner = info.Defs[id]
					}
				}
			}
		}
		return true
	})
	if scanner == nil {
		c.Undecided("C18.reader", "readPointsFromIO#scanner", fn.Decl.Pos(), "no bufio.NewScanner found: the reader is built differently, the rule does not know how")
		return
	}
	buffer, split := false, ""
	ast.Inspect(fn.Decl.Body, func(nd ast.Node) bool {
		call, ok := nd.(*ast.CallExpr)
		if !ok {
			return true
		}
		sel, ok := call.Fun.(*ast.SelectorExpr)
		if !ok {
			return true
		}
		if id, ok := ast.Unparen(sel.X).(*ast.Ident); !ok || info.Uses[id] != scanner {
			return true
		}
		switch sel.Sel.Name {
		case "Buffer":
			buffer = true
		case "Split":
			if len(call.Args) == 1 {
				split = types.ExprString(call.Args[0])
				if f, ok := ast.Unparen(call.Args[0]).(*ast.SelectorExpr); ok {
					if o, ok := info.Uses[f.Sel].(*types.Func); ok && o.Pkg() != nil && o.Pkg().Path() == "bufio" {
						split = "bufio." + o.Name()
					}
				}
			}
		}
		return true
	})
	c.Check(buffer, "C18.reader", "readPointsFromIO#line-length", fn.Decl.Pos(), "the scanner that reads the recording keeps bufio's default token limit (64 KiB): a point with a longer line (a large string field) is recorded but ends the replay with 'expected another line', the rest of the recording is dropped")
	c.Check(split != "" && split != "bufio.ScanLines", "C18.reader", "readPointsFromIO#line-end", fn.Decl.Pos(), "the recording is cut into lines with %q: bufio.ScanLines (the default) also drops a carriage return at the end of a line, and a point continued over several lines is joined with new lines only — the string field \"a\\r\\nb\" is replayed as \"a\\nb\"", map[bool]string{true: "bufio.ScanLines (default)", false: split}[split == ""])
	// F57
	eng := &an.Engine{Prog: c.P,
		TrackExpr: func(x ast.Expr) string {
			if ix, ok := x.(*ast.IndexExpr); ok {
				if tv, ok := info.Types[ix.X]; ok {
					if sl, ok := tv.Type.Underlying().(*types.Slice); ok {
						if nn := core.NamedOf(sl.Elem()); nn != nil && nn.Obj().Name() == "Point" {
							return "index"
						}
					}
				}
			}
			return ""
		},
		Classify: func(a an.Atom) (string, bool) {
			isLenPoints := func(x ast.Expr) bool {
				call, ok := ast.Unparen(x).(*ast.CallExpr)
				if !ok || !core.IsBuiltin(info, call, "len") || len(call.Args) != 1 {
					return false
				}
				if tv, ok := info.Types[call.Args[0]]; ok {
					if sl, ok := tv.Type.Underlying().(*types.Slice); ok {
						if nn := core.NamedOf(sl.Elem()); nn != nil && nn.Obj().Name() == "Point" {
							return true
						}
					}
				}
				return false
			}
			if a.LX != nil && isLenPoints(a.LX) && a.R == "0" {
				switch a.Op {
				case token.EQL:
					return "empty", false
				case token.NEQ, token.GTR:
					return "empty", true
				}
			}
			if a.RX != nil && isLenPoints(a.RX) && a.L == "0" && a.Op == token.LSS {
				return "empty", true
			}
			return "", false
		}}
	paths, err := eng.Run(fn)
	if err != nil {
		c.Undecided("C18.reader", "readPointsFromIO#parsed-empty", fn.Decl.Pos(), "%v", err)
		return
	}
	good, n := true, 0
	for _, p := range paths {
		for _, e := range p.Events {
			if e.Kind == "expr" && e.Name == "index" {
				n++
				if v, ok := p.Assign()["empty"]; !ok || v {
					if good {
						c.Fail("C18.reader", "readPointsFromIO#parsed-empty", e.Pos, "the points parsed from a record are indexed without a test of their number on path [%s]: the line-protocol parser returns no point and no error for a blank line or a line starting with # (a measurement named #m is recorded as such a line), the index panics in the reader goroutine, which nothing recovers — the daemon ends", p.Cond())
					}
					good = false
				}
			}
		}
	}
	if good && n > 0 {
		c.Ok("C18.reader", "readPointsFromIO#parsed-empty")
	}
	c.Floor("C18.reader", "paths indexing the parsed points", n, 1)
}

// c18BatchTime: F60. Without recording time the batch's own time (the recorded query's stop time) is shifted by the same offset
// as its points: in replayBatchFromChan, the branch that rewrites the points' times also sets the begin message's time to its
// old time plus the offset.
func c18BatchTime(c *core.Ctx, pkg *packages.Package) {
	fn := c.Need("C18.shift", "", "", "replayBatchFromChan")
	if fn == nil {
		return
	}
	info := pkg.TypesInfo
	found, shifted := false, false
	ast.Inspect(fn.Decl.Body, func(nd ast.Node) bool {
		is, ok := nd.(*ast.IfStmt)
		if !ok {
			return true
		}
		// the branch that rewrites the points: contains points[i].SetTime(… .Add(diff) …)
		rewrites := func(b *ast.BlockStmt) (string, bool) {
			diff := ""
			ast.Inspect(b, func(k ast.Node) bool {
				call, ok := k.(*ast.CallExpr)
				if !ok {
					return true
				}
				sel, ok := call.Fun.(*ast.SelectorExpr)
				if !ok || sel.Sel.Name != "SetTime" || len(call.Args) != 1 {
					return true
				}
				if _, isIdx := ast.Unparen(sel.X).(*ast.IndexExpr); !isIdx {
					return true
				}
				ast.Inspect(call.Args[0], func(m ast.Node) bool {
					if ac, ok := m.(*ast.CallExpr); ok {
						if as, ok := ac.Fun.(*ast.SelectorExpr); ok && as.Sel.Name == "Add" && len(ac.Args) == 1 {
							if tv, ok := info.Types[ac.Args[0]]; ok && tv.Type.String() == "time.Duration" {
								diff = types.ExprString(ac.Args[0])
							}
						}
					}
					return true
				})
				return true
			})
			return diff, diff != ""
		}
		for _, b := range []*ast.BlockStmt{is.Body} {
			diff, ok := rewrites(b)
			if !ok {
				continue
			}
			found = true
			ast.Inspect(b, func(k ast.Node) bool {
				call, ok := k.(*ast.CallExpr)
				if !ok {
					return true
				}
				sel, ok := call.Fun.(*ast.SelectorExpr)
				if !ok || sel.Sel.Name != "SetTime" || len(call.Args) != 1 {
					return true
				}
				if rc, ok := ast.Unparen(sel.X).(*ast.CallExpr); !ok || !strings.HasSuffix(types.ExprString(rc.Fun), ".Begin") {
					return true
				}
				if strings.Contains(types.ExprString(call.Args[0]), ".Add("+diff+")") {
					shifted = true
				}
				return true
			})
		}
		return true
	})
	if !found {
		c.Undecided("C18.shift", "replayBatchFromChan#batch-time", fn.Decl.Pos(), "the branch that rewrites the points' times was not found")
		return
	}
	c.Check(shifted, "C18.shift", "replayBatchFromChan#batch-time", fn.Decl.Pos(), "the branch that shifts the points of a batch to the replay clock does not shift the batch's own time by the same offset: the recorded query's stop time stays where it was (or is only raised to the last point), so nodes that stamp their result with the batch time emit at other relative times than when the data was recorded — timestamps are no longer all shifted by one constant")
}
