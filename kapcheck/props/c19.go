package props

import (
	"go/ast"
	"go/token"
	"go/types"
	"strings"

	"golang.org/x/tools/go/packages"

	"kapcheck/an"
	"kapcheck/core"
)

func init() {
	register(&Property{
		ID:       "C19",
		Patterns: []string{".", "./udf", "./udf/agent", "./edge"},
		Run:      runC19,
		Explanation: "UDF boundary decided as writer/reader agreement and structure: the frame is a uvarint length followed by exactly that many bytes, read by a loop that continues at the offset already read until the length is reached (so any fragmentation of the stream is tolerated), and decoded into a reset message (no merge into a reused object); " +
			"every attribute of a point/batch is written into the protocol field of its role and read back from that field into the constructor position of the same role (reference table, both sides compared); the four typed field maps partition the fields by dynamic type, an unsupported type is an error, and all four maps are merged back; " +
			"a buffered batch is written begin, every point, end; the response state machine collects points between begin and end into a fresh slice per batch (the slice handed downstream is never written again), emits the batch at end and resets; responses are routed to the channel their request waits on; one goroutine writes and one reads the stream; " +
			"the node forwards every message both ways, closes (not aborts) the UDF after its input is exhausted, and the process wrapper waits for all pipe reads before reaping the process; snapshot and restore pass the UDF's bytes through untouched. " +
			"NOT decided: protobuf encoding itself (third party), equality over all message sequences and interleavings, timing.",
		Assumptions: []string{"proto.Marshal/Unmarshal are mutually inverse on agent messages", "os/exec: Cmd.Wait closes the pipes, so all reads must complete before it (documented)"},
	})
}

func runC19(c *core.Ctx) {
	c19AgentWait(c)
	c19AgentClose(c)
	c.Rule("C19.frame", "A1/A3: WriteMessage writes the uvarint of len(data) and then data, returning every write error; ReadMessage reads the uvarint, reads into b[read:] until read equals size adding what each Read returned, turns EOF inside a message into an error, and unmarshals exactly the size bytes")
	c.Rule("C19.reset", "A3: ReadMessage decodes with proto.Unmarshal (which resets the message) or with UnmarshalOptions whose Merge is not set: merging into a reused message accumulates map and repeated fields of earlier messages")
	c.Rule("C19.roles", "A7: reference role table for points and batches: each protocol field is written from the accessor of its role (writePoint, writeBeginBatch, writeBatchPoint, writeEndBatch and their call sites) and each constructor position on the read side takes the protocol field of the same role (handleResponse)")
	c.Rule("C19.fields", "A1: fieldsToTypedMaps stores every field under its own key into the map of its dynamic type (string, float64, int64, bool) and fails on any other type; typeMapsToFields copies every entry of all four maps (loops without exits)")
	c.Rule("C19.batch", "A1/A2: writeBufferedBatch writes begin, then every point (left only with an error), then end; handleResponse: begin starts a fresh point slice on every path and remembers the begin message; a point goes to the slice exactly while a batch is open (the tested state is one that begin sets and end clears) and to the output otherwise; end without begin is an error; end emits the batch built from the collected points and then clears the state")
	c.Rule("C19.own", "A6 ownership: the point slice handed to NewBufferedBatchMessage and sent downstream is not written again: after the send s.points is set to nil or a fresh make, never re-sliced, and begin never keeps a previous slice")
	c.Rule("C19.routing", "A7: handleResponse routes Info/Init/Snapshot/Restore responses to the channel on which the matching request method waits, and that method asserts the same response type")
	c.Rule("C19.stream", "A6: the protocol stream has one writer and one reader: agent.WriteMessage on the server's output is reachable only from writeData, agent.ReadMessage on its input only from readData, and Start launches each exactly once")
	c.Rule("C19.pump", "A2: UDFNode.runUDF forwards every message of udf.Out() to all children and every message of its input edge to udf.In() (the only other exit is the abort signal), and after the input is exhausted closes the UDF (Close, not Abort) before it takes the forwarder's result")
	c.Rule("C19.pipes", "A2: UDFProcess.Open's reaper waits for the stderr logger and for the server's IO (WaitIO) before cmd.Wait(): Wait closes the pipes and discards what was not yet read")
	c.Rule("C19.snapshot", "A3: Snapshot returns the Snapshot bytes of the snapshot response unchanged and Restore sends the caller's bytes unchanged; UDFNode.snapshot/restore pass them through")

	root := c.P.Pkg("")
	udf := c.P.Pkg("udf")
	agent := c.P.Pkg("udf/agent")
	if root == nil || udf == nil || agent == nil {
		c.Undecided("C19.frame", "anchor:packages", token.NoPos, "root, udf or udf/agent not loaded")
		return
	}
	c19Frame(c, agent)
	c19Roles(c, udf)
	c19Fields(c, udf)
	c19Batch(c, udf)
	c19Routing(c, udf)
	c19Stream(c, udf)
	c19Pump(c, root)
}

func c19Frame(c *core.Ctx, pkg *packages.Package) {
	info := pkg.TypesInfo
	if fn := c.Need("C19.frame", "udf/agent", "", "WriteMessage"); fn != nil {
		eng := &an.Engine{Prog: c.P, Alias: map[string]string{an.ParamName(fn.Decl.Type, 0): "msg", an.ParamName(fn.Decl.Type, 1): "w"},
			TrackCall: func(call *ast.CallExpr, callee *types.Func) string {
				if callee == nil {
					return ""
				}
				switch callee.Name() {
				case "Marshal", "PutUvarint", "Write":
					return callee.Name()
				}
				return ""
			},
			Classify: func(a an.Atom) (string, bool) {
				if n, neg := an.ErrNilAtom(info, a); n != "" {
					return n, neg
				}
				return "", false
			}}
		paths, err := eng.Run(fn)
		if err != nil {
			c.Undecided("C19.frame", "WriteMessage", fn.Decl.Pos(), "%v", err)
		} else {
			good := len(paths) > 0
			okPath := false
			for _, p := range paths {
				ret := ""
				if len(p.Rets) == 1 {
					ret = p.Rets[0]
				}
				w := an.Seq(p, "Marshal", "PutUvarint", "Write")
				if ret == "nil" {
					if w != "Marshal,PutUvarint,Write,Write" {
						good = false
						c.Fail("C19.frame", "WriteMessage", p.RetPos, "a successful write does [%s], must marshal, encode the length, write the length, write the data", w)
						continue
					}
					okPath = true
					var writes []an.Event
					var put *an.Event
					for i, e := range p.Events {
						if e.Kind == "call" && e.Name == "Write" {
							writes = append(writes, e)
						}
						if e.Kind == "call" && e.Name == "PutUvarint" {
							put = &p.Events[i]
						}
					}
					if put == nil || !strings.Contains(put.Args[1], "len(") || !strings.Contains(put.Args[1], "Marshal(msg).0") {
						good = false
						c.Fail("C19.frame", "WriteMessage#length", p.RetPos, "the header must encode len(data) of the marshalled message")
					}
					if len(writes) == 2 && (!strings.Contains(writes[0].Args[0], "[:") || !strings.Contains(writes[1].Args[0], "Marshal(msg).0")) {
						good = false
						c.Fail("C19.frame", "WriteMessage#order", p.RetPos, "the header (varint[:n]) must be written before the data; writes are %s then %s", shortKey(writes[0].Args[0]), shortKey(writes[1].Args[0]))
					}
				} else if ret == "" {
					good = false
				}
			}
			// no path may return nil after an undecided-err branch: every error atom false ⇒ returned
			for _, p := range paths {
				for _, l := range p.Lits {
					if strings.HasPrefix(l.Name, "err") || l.Name == "ok" {
						_ = l
					}
				}
			}
			if good && okPath {
				c.Ok("C19.frame", "WriteMessage")
			}
		}
		// error discipline: each of the three fallible calls is followed by `if err != nil { return err }`
		nChecks := 0
		ast.Inspect(fn.Decl.Body, func(n ast.Node) bool {
			if ifs, ok := n.(*ast.IfStmt); ok && len(an.Effective(ifs.Body.List)) == 1 {
				if be, ok := ifs.Cond.(*ast.BinaryExpr); ok && be.Op == token.NEQ && an.IsNil(info, be.Y) && an.IsErrorType(info, be.X) {
					if r, ok := an.Effective(ifs.Body.List)[0].(*ast.ReturnStmt); ok && len(r.Results) == 1 && types.ExprString(r.Results[0]) == types.ExprString(be.X) {
						nChecks++
					}
				}
			}
			return true
		})
		c.Check(nChecks >= 3, "C19.frame", "WriteMessage#errors", fn.Decl.Pos(), "marshal and both writes must return their error (found %d checks): a short write leaves a torn frame that the reader takes for the next message's length", nChecks)
	}
	fn := c.Need("C19.frame", "udf/agent", "", "ReadMessage")
	if fn == nil {
		return
	}
	// loop shape
	var loop *ast.ForStmt
	ast.Inspect(fn.Decl.Body, func(n ast.Node) bool {
		if fs, ok := n.(*ast.ForStmt); ok && loop == nil {
			loop = fs
		}
		return true
	})
	// roles: size = first result of ReadUvarint; b = the slice cut to size; read = the counter of the loop condition; n = what Read returned
	sizeN, bN, readN, nN, bufP := "", "", "", "", an.ParamName(fn.Decl.Type, 0)
	ast.Inspect(fn.Decl.Body, func(n ast.Node) bool {
		as, ok := n.(*ast.AssignStmt)
		if !ok || len(as.Rhs) != 1 {
			return true
		}
		if call, ok := as.Rhs[0].(*ast.CallExpr); ok && len(as.Lhs) == 2 {
			if f := core.Callee(info, call); f != nil {
				switch f.Name() {
				case "ReadUvarint":
					sizeN = types.ExprString(as.Lhs[0])
				case "Read":
					nN = types.ExprString(as.Lhs[0])
				}
			}
		}
		if _, ok := ast.Unparen(as.Rhs[0]).(*ast.SliceExpr); ok && len(as.Lhs) == 1 && as.Tok == token.DEFINE && bN == "" {
			bN = types.ExprString(as.Lhs[0])
		}
		return true
	})
	if loop != nil {
		if be, ok := loop.Cond.(*ast.BinaryExpr); ok {
			readN = types.ExprString(be.X)
		}
	}
	if loop == nil {
		c.Fail("C19.frame", "ReadMessage#loop", fn.Decl.Pos(), "ReadMessage has no read loop: a message delivered in more than one Read is truncated")
	} else {
		cond := types.ExprString(loop.Cond)
		readArg, adv, eofErr := "", "", false
		ast.Inspect(loop.Body, func(n ast.Node) bool {
			switch x := n.(type) {
			case *ast.CallExpr:
				if f := core.Callee(info, x); f != nil && f.Name() == "Read" && len(x.Args) == 1 {
					readArg = types.ExprString(x.Args[0])
				}
			case *ast.AssignStmt:
				if x.Tok == token.ADD_ASSIGN && types.ExprString(x.Lhs[0]) == readN {
					adv = types.ExprString(x.Rhs[0])
				}
			case *ast.IfStmt:
				if be, ok := x.Cond.(*ast.BinaryExpr); ok && be.Op == token.EQL && types.ExprString(be.Y) == "io.EOF" && an.IsErrorType(info, be.X) {
					for _, st := range x.Body.List {
						if r, ok := st.(*ast.ReturnStmt); ok && len(r.Results) == 1 && types.ExprString(r.Results[0]) != "nil" {
							eofErr = true
						}
					}
				}
			}
			return true
		})
		// F87: a reader may hand over the last bytes together with io.EOF: the bytes are counted before EOF is looked at, and
		// EOF is an error only while bytes are missing
		advPos, eofPos := token.NoPos, token.NoPos
		complete := false
		for _, st := range loop.Body.List {
			switch x := st.(type) {
			case *ast.AssignStmt:
				if x.Tok == token.ADD_ASSIGN && types.ExprString(x.Lhs[0]) == readN && advPos == token.NoPos {
					advPos = x.Pos()
				}
			case *ast.IfStmt:
				if be, ok := x.Cond.(*ast.BinaryExpr); ok && types.ExprString(be.Y) == "io.EOF" && eofPos == token.NoPos {
					eofPos = x.Pos()
					ast.Inspect(x, func(k ast.Node) bool {
						if cb, ok := k.(*ast.BinaryExpr); ok && (cb.Op == token.EQL || cb.Op == token.NEQ || cb.Op == token.LSS) {
							l, r := types.ExprString(cb.X), types.ExprString(cb.Y)
							if (l == readN && r == sizeN) || (l == sizeN && r == readN) {
								complete = true
							}
						}
						return true
					})
				}
			}
		}
		c.Check(advPos != token.NoPos && eofPos != token.NoPos && advPos < eofPos && complete, "C19.frame", "ReadMessage#eof-with-data", loop.Pos(), "the read loop looks at io.EOF before it has counted the bytes that came with it, or treats EOF as an error although the message is complete (bytes counted first: %v, EOF tested against completeness: %v): a reader may return the last bytes and io.EOF from one call (the io.Reader contract; bufio passes large reads through), a complete frame is then rejected as 'unexpected EOF'", advPos != token.NoPos && eofPos != token.NoPos && advPos < eofPos, complete)
		okk := (cond == readN+" != "+sizeN || cond == readN+" < "+sizeN) && readArg == bN+"["+readN+":]" && (adv == "uint64("+nN+")") && eofErr
		c.Check(okk, "C19.frame", "ReadMessage#loop", loop.Pos(), "the read loop must run while read != size, read into b[read:], add n to read and fail on EOF inside a message (cond %q, reads into %q, advances by %q, EOF is an error: %v): otherwise a frame that arrives in several reads is cut or overwritten from the start", cond, readArg, adv, eofErr)
	}
	// the buffer is exactly size bytes and that is what is decoded
	bdef, um := "", ""
	var umCall *ast.CallExpr
	ast.Inspect(fn.Decl.Body, func(n ast.Node) bool {
		switch x := n.(type) {
		case *ast.AssignStmt:
			if len(x.Lhs) == 1 && types.ExprString(x.Lhs[0]) == bN {
				bdef = types.ExprString(x.Rhs[0])
			}
		case *ast.CallExpr:
			if f := core.Callee(info, x); f != nil && f.Name() == "Unmarshal" && len(x.Args) == 2 {
				um = types.ExprString(x.Args[0])
				umCall = x
			}
		}
		return true
	})
	c.Check(bdef == "(*"+bufP+")[:"+sizeN+"]" && um == bN, "C19.frame", "ReadMessage#extent", fn.Decl.Pos(), "exactly the size bytes of the frame must be decoded (b = %q, decoded %q): decoding the whole reusable buffer appends the tail of an earlier, longer message", bdef, um)
	sizeSrc := ""
	ast.Inspect(fn.Decl.Body, func(n ast.Node) bool {
		if as, ok := n.(*ast.AssignStmt); ok && len(as.Lhs) == 2 && types.ExprString(as.Lhs[0]) == sizeN {
			sizeSrc = types.ExprString(as.Rhs[0])
		}
		return true
	})
	c.Check(sizeSrc == "binary.ReadUvarint("+an.ParamName(fn.Decl.Type, 1)+")", "C19.frame", "ReadMessage#length", fn.Decl.Pos(), "the length must be read with binary.ReadUvarint, the inverse of the writer's PutUvarint (found %q)", sizeSrc)
	// C19.reset
	if umCall != nil {
		okReset := false
		switch f := umCall.Fun.(type) {
		case *ast.SelectorExpr:
			if id, ok := f.X.(*ast.Ident); ok && id.Name == "proto" {
				okReset = true
			} else if cl, ok := ast.Unparen(f.X).(*ast.CompositeLit); ok {
				okReset = true
				for _, el := range cl.Elts {
					if kv, ok := el.(*ast.KeyValueExpr); ok && types.ExprString(kv.Key) == "Merge" && types.ExprString(kv.Value) != "false" {
						okReset = false
					}
				}
			}
		}
		c.Check(okReset, "C19.reset", "ReadMessage#unmarshal", umCall.Pos(), "the frame is merged into the message instead of replacing it (%s): a caller that reuses its message object (the agent does) sees tags and fields of earlier points in later ones", types.ExprString(umCall.Fun))
	} else {
		c.Fail("C19.reset", "ReadMessage#unmarshal", fn.Decl.Pos(), "no Unmarshal call found")
	}
}

// c19Lit: key → value text of the (first) composite literal of the named type in fn, with the identifier `from` replaced by "$".
func c19Lit(info *types.Info, body ast.Node, typ string, from ...string) map[string]string {
	out := map[string]string{}
	found := false
	ast.Inspect(body, func(n ast.Node) bool {
		cl, ok := n.(*ast.CompositeLit)
		if !ok || found {
			return true
		}
		tv, ok := info.Types[cl]
		if !ok {
			return true
		}
		named := core.NamedOf(tv.Type)
		if named == nil || named.Obj().Name() != typ {
			return true
		}
		found = true
		for _, el := range cl.Elts {
			if kv, ok := el.(*ast.KeyValueExpr); ok {
				v := types.ExprString(kv.Value)
				for _, f := range from {
					v = replaceIdent(v, f, "$")
				}
				out[types.ExprString(kv.Key)] = v
			}
		}
		return false
	})
	return out
}

func replaceIdent(s, id, with string) string {
	if id == "" {
		return s
	}
	var b strings.Builder
	for i := 0; i < len(s); {
		if strings.HasPrefix(s[i:], id) && (i == 0 || !isIdentByte(s[i-1])) && (i+len(id) == len(s) || !isIdentByte(s[i+len(id)])) {
			b.WriteString(with)
			i += len(id)
			continue
		}
		b.WriteByte(s[i])
		i++
	}
	return b.String()
}

func isIdentByte(c byte) bool {
	return c == '_' || (c >= '0' && c <= '9') || (c >= 'a' && c <= 'z') || (c >= 'A' && c <= 'Z')
}

func c19Args(info *types.Info, body ast.Node, callee string) []string {
	var out []string
	ast.Inspect(body, func(n ast.Node) bool {
		if call, ok := n.(*ast.CallExpr); ok && out == nil {
			if f := core.Callee(info, call); f != nil && f.Name() == callee {
				for _, a := range call.Args {
					out = append(out, strings.Join(strings.Fields(types.ExprString(a)), " "))
				}
			}
		}
		return true
	})
	return out
}

func c19Roles(c *core.Ctx, pkg *packages.Package) {
	info := pkg.TypesInfo
	check := func(cons string, pos token.Pos, got, want map[string]string, what string) {
		good := true
		for _, k := range an.SortedKeys(want) {
			if got[k] != want[k] {
				good = false
				c.Fail("C19.roles", cons+"#"+k, pos, "%s: %s must be %s, it is %q — the attribute crosses the UDF boundary in another attribute's place", what, k, want[k], got[k])
			}
		}
		for _, k := range an.SortedKeys(got) {
			if _, ok := want[k]; !ok && !strings.HasPrefix(k, "Fields") {
				good = false
				c.Fail("C19.roles", cons+"#"+k, pos, "%s: unexpected attribute %s = %s (not in the reference table)", what, k, got[k])
			}
		}
		if good {
			c.Ok("C19.roles", cons)
		}
	}
	if fn := c.Need("C19.roles", "udf", "Server", "writePoint"); fn != nil {
		p := an.ParamName(fn.Decl.Type, 0)
		got := c19Lit(info, fn.Decl.Body, "Point", p)
		check("writePoint", fn.Decl.Pos(), got, map[string]string{
			"Time": "$.Time().UnixNano()", "Name": "$.Name()", "Database": "$.Database()", "RetentionPolicy": "$.RetentionPolicy()",
			"Group": "string($.GroupID())", "Dimensions": "$.Dimensions().TagNames", "ByName": "$.Dimensions().ByName", "Tags": "$.Tags()",
		}, "stream point sent to the UDF")
		c19FieldMaps(c, info, fn, got, p)
	}
	if fn := c.Need("C19.roles", "udf", "Server", "writeBatchPoint"); fn != nil {
		g, bp := an.ParamName(fn.Decl.Type, 0), an.ParamName(fn.Decl.Type, 1)
		got := c19Lit(info, fn.Decl.Body, "Point", bp)
		for k, v := range got {
			got[k] = replaceIdent(v, g, "£")
		}
		check("writeBatchPoint", fn.Decl.Pos(), got, map[string]string{"Time": "$.Time().UnixNano()", "Group": "string(£)", "Tags": "$.Tags()"}, "batch point sent to the UDF")
		c19FieldMaps(c, info, fn, got, bp)
	}
	if fn := c.Need("C19.roles", "udf", "Server", "writeBeginBatch"); fn != nil {
		b := an.ParamName(fn.Decl.Type, 0)
		check("writeBeginBatch", fn.Decl.Pos(), c19Lit(info, fn.Decl.Body, "BeginBatch", b), map[string]string{
			"Name": "$.Name()", "Group": "string($.GroupID())", "Tags": "$.Tags()", "Size": "int64($.SizeHint())", "ByName": "$.Dimensions().ByName",
		}, "begin-batch sent to the UDF")
	}
	if fn := c.Need("C19.roles", "udf", "Server", "writeEndBatch"); fn != nil {
		got := c19Lit(info, fn.Decl.Body, "EndBatch")
		names := []string{}
		for i := 0; i < 4; i++ {
			names = append(names, an.ParamName(fn.Decl.Type, i))
		}
		for k, v := range got {
			for i, nm := range names {
				v = replaceIdent(v, nm, "$"+string(rune('0'+i)))
			}
			got[k] = v
		}
		check("writeEndBatch", fn.Decl.Pos(), got, map[string]string{"Name": "$0", "Group": "string($2.ID)", "Tmax": "$1.UnixNano()", "Tags": "$2.Tags", "ByName": "$2.Dimensions.ByName" /* F88: 'the same meta information' as the begin message */}, "end-batch sent to the UDF")
		// call sites: (X.Name(), X.Time(), X.GroupInfo(), end)
		n := 0
		for _, f := range core.AllFuncs(pkg) {
			if f.Decl.Body == nil {
				continue
			}
			ast.Inspect(f.Decl.Body, func(nd ast.Node) bool {
				call, ok := nd.(*ast.CallExpr)
				if !ok || len(call.Args) != 4 {
					return true
				}
				if g := core.Callee(info, call); g == nil || g.Name() != "writeEndBatch" {
					return true
				}
				n++
				a0, a1, a2 := types.ExprString(call.Args[0]), types.ExprString(call.Args[1]), types.ExprString(call.Args[2])
				base := strings.TrimSuffix(a0, ".Name()")
				okk := base != a0 && a1 == base+".Time()" && a2 == base+".GroupInfo()"
				c.Check(okk, "C19.roles", "writeEndBatch@"+f.Name(), call.Pos(), "writeEndBatch must get (b.Name(), b.Time(), b.GroupInfo(), end) of one batch; it gets (%s, %s, %s)", a0, a1, a2)
				return true
			})
		}
		c.Floor("C19.roles", "writeEndBatch call sites", n, 2)
	}
	// the read side
	fn := c.Need("C19.roles", "udf", "Server", "handleResponse")
	if fn == nil {
		return
	}
	ren := c19Renamer(fn)
	norm := func(s string) string { return ren(strings.Join(strings.Fields(s), " ")) }
	fieldsCall := "s.typeMapsToFields( msg.Point.FieldsString, msg.Point.FieldsDouble, msg.Point.FieldsInt, msg.Point.FieldsBool, )"
	_ = fieldsCall
	isFields := func(s string) bool {
		s = strings.ReplaceAll(norm(s), " ", "")
		return s == "s.typeMapsToFields(msg.Point.FieldsString,msg.Point.FieldsDouble,msg.Point.FieldsInt,msg.Point.FieldsBool)"
	}
	renAll := func(a []string) []string {
		for i := range a {
			a[i] = ren(a[i])
		}
		return a
	}
	if a := renAll(c19Args(info, fn.Decl.Body, "NewPointMessage")); len(a) == 7 {
		want := []string{"msg.Point.Name", "msg.Point.Database", "msg.Point.RetentionPolicy", "models.Dimensions{ByName: msg.Point.ByName, TagNames: msg.Point.Dimensions}", "", "msg.Point.Tags", "time.Unix(0, msg.Point.Time).UTC()"}
		roles := []string{"name", "database", "retention policy", "dimensions", "fields", "tags", "time"}
		good := true
		for i := range want {
			okk := a[i] == want[i]
			if i == 4 {
				okk = isFields(a[i])
			}
			if i == 3 {
				d := c19Lit(info, fn.Decl.Body, "Dimensions")
				for k, v := range d {
					d[k] = ren(v)
				}
				okk = strings.HasPrefix(a[i], "models.Dimensions{") && len(d) == 2 && d["ByName"] == "msg.Point.ByName" && d["TagNames"] == "msg.Point.Dimensions"
				if !okk {
					a[i] = "models.Dimensions{ByName: " + d["ByName"] + ", TagNames: " + d["TagNames"] + "}"
				}
			}
			if !okk {
				good = false
				c.Fail("C19.roles", "handleResponse#point-"+strings.ReplaceAll(roles[i], " ", "-"), fn.Decl.Pos(), "the %s of a point returned by the UDF is taken from %q (reference: %s)", roles[i], a[i], want[i])
			}
		}
		if good {
			c.Ok("C19.roles", "handleResponse#point")
		}
	} else {
		c.Fail("C19.roles", "handleResponse#point", fn.Decl.Pos(), "NewPointMessage call with 7 arguments not found")
	}
	if a := renAll(c19Args(info, fn.Decl.Body, "NewBatchPointMessage")); len(a) == 3 {
		okk := isFields(a[0]) && a[1] == "msg.Point.Tags" && a[2] == "time.Unix(0, msg.Point.Time).UTC()"
		c.Check(okk, "C19.roles", "handleResponse#batch-point", fn.Decl.Pos(), "a batch point returned by the UDF must be built from (typed field maps, msg.Point.Tags, msg.Point.Time); it is built from %v", a)
	} else {
		c.Fail("C19.roles", "handleResponse#batch-point", fn.Decl.Pos(), "NewBatchPointMessage call not found")
	}
	if a := renAll(c19Args(info, fn.Decl.Body, "NewBeginBatchMessage")); len(a) == 5 {
		okk := a[0] == "msg.End.Name" && a[1] == "msg.End.Tags" && a[2] == "s.begin.ByName" && a[3] == "time.Unix(0, msg.End.Tmax).UTC()" && a[4] == "len(s.points)"
		c.Check(okk, "C19.roles", "handleResponse#batch", fn.Decl.Pos(), "the batch returned by the UDF must be (End.Name, End.Tags, begin.ByName, End.Tmax, number of points); it is %v", a)
	} else {
		c.Fail("C19.roles", "handleResponse#batch", fn.Decl.Pos(), "NewBeginBatchMessage call not found")
	}
}

// c19FieldMaps: FieldsX of the literal is the result variable of fieldsToTypedMaps of the same type position.
func c19FieldMaps(c *core.Ctx, info *types.Info, fn *core.Func, lit map[string]string, src string) {
	var lhs []string
	arg := ""
	ast.Inspect(fn.Decl.Body, func(n ast.Node) bool {
		if as, ok := n.(*ast.AssignStmt); ok && len(as.Rhs) == 1 && len(as.Lhs) == 5 {
			if call, ok := as.Rhs[0].(*ast.CallExpr); ok {
				if f := core.Callee(info, call); f != nil && f.Name() == "fieldsToTypedMaps" {
					for _, l := range as.Lhs {
						lhs = append(lhs, types.ExprString(l))
					}
					arg = replaceIdent(types.ExprString(call.Args[0]), src, "$")
				}
			}
		}
		return true
	})
	okk := len(lhs) == 5 && arg == "$.Fields()" && lit["FieldsString"] == lhs[0] && lit["FieldsDouble"] == lhs[1] && lit["FieldsInt"] == lhs[2] && lit["FieldsBool"] == lhs[3]
	c.Check(okk, "C19.roles", fn.Decl.Name.Name+"#fields", fn.Decl.Pos(), "the four typed maps of %s.Fields() must be sent as FieldsString/FieldsDouble/FieldsInt/FieldsBool in that order (results %v of fieldsToTypedMaps(%s), sent as %s/%s/%s/%s)", src, lhs, arg, lit["FieldsString"], lit["FieldsDouble"], lit["FieldsInt"], lit["FieldsBool"])
}

func c19Fields(c *core.Ctx, pkg *packages.Package) {
	info := pkg.TypesInfo
	if fn := c.Need("C19.fields", "udf", "Server", "fieldsToTypedMaps"); fn != nil {
		// result names by type
		res := map[string]string{}
		for _, f := range fn.Decl.Type.Results.List {
			t := types.ExprString(f.Type)
			for _, nm := range f.Names {
				res[t] = nm.Name
			}
		}
		want := map[string]string{"string": res["map[string]string"], "float64": res["map[string]float64"], "int64": res["map[string]int64"], "bool": res["map[string]bool"]}
		seen := map[string]bool{}
		deflt := false
		var rangeKey string
		// the variable bound by the type switch, and the named error result
		swVar, errRes := "value", "err"
		ast.Inspect(fn.Decl.Body, func(n ast.Node) bool {
			if ts, ok := n.(*ast.TypeSwitchStmt); ok {
				if as, ok := ts.Assign.(*ast.AssignStmt); ok && len(as.Lhs) == 1 {
					swVar = types.ExprString(as.Lhs[0])
				}
			}
			return true
		})
		for _, f := range fn.Decl.Type.Results.List {
			if types.ExprString(f.Type) == "error" && len(f.Names) == 1 {
				errRes = f.Names[0].Name
			}
		}
		ast.Inspect(fn.Decl.Body, func(n ast.Node) bool {
			switch x := n.(type) {
			case *ast.RangeStmt:
				if x.Key != nil {
					rangeKey = types.ExprString(x.Key)
				}
			case *ast.CaseClause:
				if x.List == nil {
					// default: must set err and return
					sets, rets := false, false
					for _, st := range x.Body {
						if as, ok := st.(*ast.AssignStmt); ok && types.ExprString(as.Lhs[0]) == errRes {
							sets = true
						}
						if _, ok := st.(*ast.ReturnStmt); ok {
							rets = true
						}
					}
					deflt = sets && rets
					return true
				}
				if len(x.List) != 1 {
					return true
				}
				t := types.ExprString(x.List[0])
				m, ok := want[t]
				if !ok {
					return true
				}
				stored := false
				for _, st := range x.Body {
					if as, ok := st.(*ast.AssignStmt); ok && len(as.Lhs) == 1 {
						if ix, ok := as.Lhs[0].(*ast.IndexExpr); ok && types.ExprString(ix.X) == m && types.ExprString(ix.Index) == rangeKey && types.ExprString(as.Rhs[0]) == swVar {
							stored = true
						}
					}
				}
				seen[t] = stored
				c.Check(stored, "C19.fields", "fieldsToTypedMaps#"+t, x.Pos(), "a %s field must be stored as %s[%s] = value", t, m, rangeKey)
			}
			return true
		})
		c.Check(len(seen) == 4, "C19.fields", "fieldsToTypedMaps#types", fn.Decl.Pos(), "fieldsToTypedMaps must handle string, float64, int64 and bool (handles %d of 4)", len(seen))
		c.Check(deflt, "C19.fields", "fieldsToTypedMaps#unsupported", fn.Decl.Pos(), "a field of another type must be reported as an error, not dropped: the point would come back from the UDF without it")
	}
	if fn := c.Need("C19.fields", "udf", "Server", "typeMapsToFields"); fn != nil {
		loops := map[string]bool{}
		early := false
		// the map that is returned
		resMap := "fields"
		if last, ok := fn.Decl.Body.List[len(fn.Decl.Body.List)-1].(*ast.ReturnStmt); ok && len(last.Results) == 1 {
			resMap = types.ExprString(last.Results[0])
		}
		ast.Inspect(fn.Decl.Body, func(n ast.Node) bool {
			switch x := n.(type) {
			case *ast.RangeStmt:
				if len(an.Effective(x.Body.List)) == 1 {
					if as, ok := an.Effective(x.Body.List)[0].(*ast.AssignStmt); ok {
						if ix, ok := as.Lhs[0].(*ast.IndexExpr); ok && types.ExprString(ix.X) == resMap && types.ExprString(ix.Index) == types.ExprString(x.Key) && types.ExprString(as.Rhs[0]) == types.ExprString(x.Value) {
							loops[types.ExprString(x.X)] = true
						}
					}
				}
			case *ast.BranchStmt:
				early = true
			}
			return true
		})
		n := 0
		for i := 0; i < 4; i++ {
			if loops[an.ParamName(fn.Decl.Type, i)] {
				n++
			}
		}
		c.Check(n == 4 && !early, "C19.fields", "typeMapsToFields#merge", fn.Decl.Pos(), "all four typed maps must be copied entry by entry into the fields (%d of 4 copied, early exit %v): the fields of one type are lost on the way back from the UDF", n, early)
	}
	_ = info
}

func c19Batch(c *core.Ctx, pkg *packages.Package) {
	info := pkg.TypesInfo
	if fn := c.Need("C19.batch", "udf", "Server", "writeBufferedBatch"); fn != nil {
		eng := &an.Engine{Prog: c.P, ElemKeys: true,
			TrackCall: func(call *ast.CallExpr, callee *types.Func) string {
				if callee == nil {
					return ""
				}
				switch callee.Name() {
				case "writeBeginBatch", "writeBatchPoint", "writeEndBatch":
					return strings.TrimPrefix(callee.Name(), "write")
				}
				return ""
			},
			Classify: func(a an.Atom) (string, bool) {
				if a.Op == token.EQL && a.R == "nil" {
					switch an.LastCall(a.L) {
					case "writeBeginBatch":
						return "beginok", false
					case "writeBatchPoint":
						return "pointok", false
					}
				}
				return "", false
			}}
		paths, err := eng.Run(fn)
		if err != nil {
			c.Undecided("C19.batch", "writeBufferedBatch", fn.Decl.Pos(), "%v", err)
		} else {
			good := len(paths) > 0
			for _, p := range paths {
				a := p.Assign()
				w := an.Seq(p, "BeginBatch", "BatchPoint", "EndBatch")
				ret := ""
				if len(p.Rets) == 1 {
					ret = p.Rets[0]
				}
				switch {
				case !a["beginok"]:
					if w != "BeginBatch" || ret == "nil" {
						good = false
						c.Fail("C19.batch", "writeBufferedBatch", p.RetPos, "a failed begin must end the write with its error: [%s]→%s", w, ret)
					}
				default:
					if v, dec := a["pointok"]; dec && !v {
						if ret == "nil" || strings.HasSuffix(w, "EndBatch") {
							good = false
							c.Fail("C19.batch", "writeBufferedBatch", p.RetPos, "a failed point write must end the batch with its error: [%s]→%s", w, ret)
						}
						continue
					}
					if w != "BeginBatch,EndBatch" && w != "BeginBatch,BatchPoint,EndBatch" {
						good = false
						c.Fail("C19.batch", "writeBufferedBatch", p.RetPos, "a buffered batch must be written begin, points, end; path writes [%s]", w)
					}
					if bp := p.Find("BatchPoint"); bp != nil && (!strings.HasSuffix(bp.Args[1], ".Points()[*]") || !strings.HasSuffix(bp.Args[0], ".GroupID()")) {
						good = false
						c.Fail("C19.batch", "writeBufferedBatch#points", bp.Pos, "each point of the batch must be written with the batch's group: writeBatchPoint(%s, %s)", shortKey(bp.Args[0]), shortKey(bp.Args[1]))
					}
				}
			}
			if good {
				c.Ok("C19.batch", "writeBufferedBatch")
			}
		}
		c09LoopNoExitErr(c, "C19.batch", "writeBufferedBatch#all-points", fn, an.ParamName(fn.Decl.Type, 0)+".Points()")
	}
	fn := c.Need("C19.batch", "udf", "Server", "handleResponse")
	if fn == nil {
		return
	}
	eng := &an.Engine{Prog: c.P, Alias: map[string]string{an.RecvVarName(fn.Decl): "s", an.ParamName(fn.Decl.Type, 0): "response"},
		TrackCall: func(call *ast.CallExpr, callee *types.Func) string {
			if callee == nil {
				return ""
			}
			switch callee.Name() {
			case "NewPointMessage", "NewBatchPointMessage", "NewBufferedBatchMessage", "NewBeginBatchMessage":
				return callee.Name()
			}
			return ""
		},
		TrackStore: func(lhs ast.Expr, key string) string {
			switch {
			case an.FieldSel(info, lhs, "Server", "points"):
				return "points"
			case an.FieldSel(info, lhs, "Server", "begin"):
				return "begin"
			case an.FieldSel(info, lhs, "Server", "outMsg"):
				return "emit"
			}
			return ""
		},
		Classify: func(a an.Atom) (string, bool) {
			switch {
			case strings.HasPrefix(a.Key, "typeis(") && strings.HasSuffix(a.Key, ",*agent.Response_Begin)"):
				return "Begin", false
			case strings.HasPrefix(a.Key, "typeis(") && strings.HasSuffix(a.Key, ",*agent.Response_Point)"):
				return "Point", false
			case strings.HasPrefix(a.Key, "typeis(") && strings.HasSuffix(a.Key, ",*agent.Response_End)"):
				return "End", false
			case a.Key == "s.points == nil":
				return "open:points", true
			case a.Key == "s.begin == nil":
				return "open:begin", true
			case strings.HasSuffix(a.Key, ".Begin.Size < 0"):
				return "negsize", false
			}
			return "", false
		}}
	paths, err := eng.Run(fn)
	if err != nil {
		c.Undecided("C19.batch", "handleResponse", fn.Decl.Pos(), "%v", err)
		return
	}
	good, ownGood := len(paths) > 0, true
	disc := map[string]bool{}
	nBegin, nEnd, nPoint := 0, 0, 0
	for _, p := range paths {
		a := p.Assign()
		ret := ""
		if len(p.Rets) == 1 {
			ret = p.Rets[0]
		}
		var pointsStores []an.Event
		emitIdx := -1
		for i, e := range p.Events {
			if e.Kind == "store" && e.Name == "points" {
				pointsStores = append(pointsStores, e)
			}
			if e.Kind == "send" && e.Name == "emit" {
				emitIdx = i
			}
		}
		switch {
		case a["Begin"]:
			if a["negsize"] {
				if ret == "nil" {
					good = false
					c.Fail("C19.batch", "handleResponse#begin", p.RetPos, "a negative batch size must be an error")
				}
				continue
			}
			nBegin++
			if !p.Has("begin") || len(pointsStores) != 1 {
				good = false
				c.Fail("C19.batch", "handleResponse#begin", p.RetPos, "a begin message must remember itself and start a point slice on every path (begin stored %v, point slice stored %d times): points of the new batch are appended to whatever is left", p.Has("begin"), len(pointsStores))
			}
			for _, ps := range pointsStores {
				if !strings.HasPrefix(ps.Args[0], "make(") {
					ownGood = false
					c.Fail("C19.own", "handleResponse#begin-fresh", ps.Pos, "begin must start the batch with a fresh slice (make); it stores %s", shortKey(ps.Args[0]))
				}
			}
			if len(pointsStores) == 0 {
				ownGood = false
				c.Fail("C19.own", "handleResponse#begin-fresh", p.RetPos, "on a path of the begin case the point slice of the previous batch is kept (%s): that slice's backing array belongs to the batch already sent downstream, whose points are then overwritten", p.Cond())
			}
		case a["Point"]:
			var open, decided bool
			for _, d := range []string{"open:points", "open:begin"} {
				if v, dec := a[d]; dec {
					open, decided = v, true
					disc[strings.TrimPrefix(d, "open:")] = true
				}
			}
			if !decided {
				good = false
				c.Fail("C19.batch", "handleResponse#point", p.RetPos, "the point case does not test whether a batch is open")
				continue
			}
			nPoint++
			if open {
				if !p.Has("NewBatchPointMessage") || len(pointsStores) != 1 || !strings.HasPrefix(pointsStores[0].Args[0], "append(s.points") || emitIdx >= 0 {
					good = false
					c.Fail("C19.batch", "handleResponse#point-in-batch", p.RetPos, "inside a batch a point must be appended to the batch's points and not emitted")
				}
			} else if ret == "nil" {
				if !p.Has("NewPointMessage") || emitIdx < 0 || len(pointsStores) != 0 {
					good = false
					c.Fail("C19.batch", "handleResponse#point-stream", p.RetPos, "outside a batch a point must be emitted on its own")
				}
			}
		case a["End"]:
			if v, dec := a["open:begin"]; dec && !v {
				if ret == "nil" {
					good = false
					c.Fail("C19.batch", "handleResponse#end-without-begin", p.RetPos, "an end message without a begin must be an error")
				}
				continue
			}
			if ret != "nil" {
				continue // aborted while emitting
			}
			nEnd++
			bb := p.Find("NewBufferedBatchMessage")
			if bb == nil || emitIdx < 0 || len(bb.Args) != 3 || bb.Args[1] != "s.points" {
				good = false
				c.Fail("C19.batch", "handleResponse#end", p.RetPos, "end must emit the batch built from the collected points")
				continue
			}
			// state cleared after the emit
			clearedBegin := false
			var after []an.Event
			for i, e := range p.Events {
				if i > emitIdx && e.Kind == "store" {
					if e.Name == "begin" && e.Args[0] == "nil" {
						clearedBegin = true
					}
					if e.Name == "points" {
						after = append(after, e)
					}
				}
			}
			if !clearedBegin {
				good = false
				c.Fail("C19.batch", "handleResponse#end-reset", p.RetPos, "end must clear the remembered begin: a second end would emit a batch again, later stream points may be taken for batch points")
			}
			if len(after) != 1 || !(after[0].Args[0] == "nil" || strings.HasPrefix(after[0].Args[0], "make(")) {
				ownGood = false
				v := "nothing"
				if len(after) > 0 {
					v = after[0].Args[0]
				}
				c.Fail("C19.own", "handleResponse#end-release", p.RetPos, "after the batch was sent downstream the server must let go of its point slice (s.points = nil, or a fresh make); it stores %s: the next batch is appended into the array the previous batch still uses, consecutive batches overwrite each other", shortKey(v))
			}
		}
	}
	// the discriminator tested in the point case must be a state that begin sets and end clears: both are, by the checks above, for begin; for points need end to nil it
	if disc["points"] {
		// end must store points=nil exactly (a fresh make would leave the batch open)
		for _, p := range paths {
			a := p.Assign()
			if !a["End"] || len(p.Rets) != 1 || p.Rets[0] != "nil" {
				continue
			}
			if v, dec := a["open:begin"]; dec && !v {
				continue
			}
			okNil := false
			for _, e := range p.Events {
				if e.Kind == "store" && e.Name == "points" && e.Args[0] == "nil" {
					okNil = true
				}
			}
			if !okNil {
				good = false
				c.Fail("C19.batch", "handleResponse#discriminator", p.RetPos, "the point case tests s.points for an open batch, so end must set it to nil: otherwise stream points after the batch are swallowed into a batch that is never emitted")
			}
		}
	}
	c.Floor("C19.batch", "begin paths", nBegin, 1)
	c.Floor("C19.batch", "end paths", nEnd, 1)
	c.Floor("C19.batch", "point paths", nPoint, 2)
	if good {
		c.Ok("C19.batch", "handleResponse")
	}
	if ownGood {
		c.Ok("C19.own", "handleResponse")
	}
}

func c19Routing(c *core.Ctx, pkg *packages.Package) {
	info := pkg.TypesInfo
	fn := c.Need("C19.routing", "udf", "Server", "handleResponse")
	if fn == nil {
		return
	}
	route := map[string]string{}
	ast.Inspect(fn.Decl.Body, func(n ast.Node) bool {
		cc, ok := n.(*ast.CaseClause)
		if !ok || len(cc.List) != 1 {
			return true
		}
		t := strings.TrimPrefix(types.ExprString(cc.List[0]), "*agent.Response_")
		for _, st := range cc.Body {
			if es, ok := st.(*ast.ExprStmt); ok {
				if call, ok := es.X.(*ast.CallExpr); ok && len(call.Args) == 2 {
					if f := core.Callee(info, call); f != nil && f.Name() == "doResponse" {
						route[t] = replaceIdent(types.ExprString(call.Args[1]), an.RecvVarName(fn.Decl), "s")
					}
				}
			}
		}
		return true
	})
	want := map[string]string{"Info": "s.infoResponse", "Init": "s.initResponse", "Snapshot": "s.snapshotResponse", "Restore": "s.restoreResponse"}
	for _, k := range an.SortedKeys(want) {
		c.Check(route[k] == want[k], "C19.routing", "handleResponse#"+k, fn.Decl.Pos(), "a %s response must be handed to %s (goes to %q): the request method waits on that channel forever or asserts the wrong type", k, want[k], route[k])
	}
	// request methods
	for _, e := range [][3]string{{"Info", "s.infoResponse", "Response_Info"}, {"Init", "s.initResponse", "Response_Init"}, {"Snapshot", "s.snapshotResponse", "Response_Snapshot"}, {"Restore", "s.restoreResponse", "Response_Restore"}} {
		m := c.Need("C19.routing", "udf", "Server", e[0])
		if m == nil {
			continue
		}
		ch, asserted := "", ""
		ast.Inspect(m.Decl.Body, func(n ast.Node) bool {
			switch x := n.(type) {
			case *ast.CallExpr:
				if f := core.Callee(info, x); f != nil && f.Name() == "doRequestResponse" && len(x.Args) == 2 {
					ch = replaceIdent(types.ExprString(x.Args[1]), an.RecvVarName(m.Decl), "s")
				}
			case *ast.TypeAssertExpr:
				if x.Type != nil {
					asserted = strings.TrimPrefix(types.ExprString(x.Type), "*agent.")
				}
			}
			return true
		})
		c.Check(ch == e[1] && asserted == e[2], "C19.routing", "Server."+e[0], m.Decl.Pos(), "%s must wait on %s and read a %s (waits on %q, asserts %q)", e[0], e[1], e[2], ch, asserted)
	}
	// C19.snapshot
	if m := c.Need("C19.snapshot", "udf", "Server", "Snapshot"); m != nil {
		ret := ""
		retVar := "snapshot"
		if last, ok := m.Decl.Body.List[len(m.Decl.Body.List)-1].(*ast.ReturnStmt); ok && len(last.Results) == 2 {
			retVar = types.ExprString(last.Results[0])
		}
		ast.Inspect(m.Decl.Body, func(n ast.Node) bool {
			if as, ok := n.(*ast.AssignStmt); ok && len(as.Lhs) == 1 && types.ExprString(as.Lhs[0]) == retVar {
				ret = types.ExprString(as.Rhs[0])
			}
			return true
		})
		last := m.Decl.Body.List[len(m.Decl.Body.List)-1]
		r, _ := last.(*ast.ReturnStmt)
		okk := strings.HasSuffix(ret, ".(*agent.Response_Snapshot).Snapshot.Snapshot") && r != nil && len(r.Results) == 2 && types.ExprString(r.Results[0]) == retVar
		c.Check(okk, "C19.snapshot", "Server.Snapshot", m.Decl.Pos(), "Snapshot must return the Snapshot bytes of the response unchanged (takes %q)", ret)
	}
	if m := c.Need("C19.snapshot", "udf", "Server", "Restore"); m != nil {
		p := an.ParamName(m.Decl.Type, 0)
		lit := c19Lit(info, m.Decl.Body, "RestoreRequest")
		c.Check(lit["Snapshot"] == p, "C19.snapshot", "Server.Restore", m.Decl.Pos(), "Restore must send the caller's bytes unchanged (sends %q)", lit["Snapshot"])
	}
}

func c19Stream(c *core.Ctx, pkg *packages.Package) {
	info := pkg.TypesInfo
	// same-package reverse call graph
	callers := map[*types.Func][]*core.Func{}
	for _, f := range core.AllFuncs(pkg) {
		if f.Decl.Body == nil {
			continue
		}
		seen := map[*types.Func]bool{}
		ast.Inspect(f.Decl.Body, func(n ast.Node) bool {
			switch x := n.(type) {
			case *ast.CallExpr:
				if g := core.Callee(info, x); g != nil && g.Pkg() == pkg.Types && !seen[g] {
					seen[g] = true
					callers[g] = append(callers[g], f)
				}
			case *ast.SelectorExpr:
				// method values (go s.writeData)
				if s := info.Selections[x]; s != nil && s.Kind() == types.MethodVal {
					if g, ok := s.Obj().(*types.Func); ok && g.Pkg() == pkg.Types && !seen[g] {
						seen[g] = true
						callers[g] = append(callers[g], f)
					}
				}
			}
			return true
		})
	}
	rootsOf := func(start *types.Func, stopAt string) map[string]bool {
		roots := map[string]bool{}
		seen := map[*types.Func]bool{}
		var up func(g *types.Func)
		up = func(g *types.Func) {
			if seen[g] {
				return
			}
			seen[g] = true
			if g.Name() == stopAt {
				roots[g.Name()] = true
				return
			}
			cs := callers[g]
			if len(cs) == 0 {
				roots[g.Name()] = true
				return
			}
			for _, cf := range cs {
				up(cf.Obj)
			}
		}
		up(start)
		return roots
	}
	for _, e := range [][3]string{{"WriteMessage", "writeData", "out"}, {"ReadMessage", "readData", "in"}} {
		// call sites of agent.X in package udf on the Server's stream
		n := 0
		good := true
		for _, f := range core.AllFuncs(pkg) {
			if f.Decl.Body == nil || core.RecvTypeName(f.Obj) != "Server" {
				continue
			}
			ast.Inspect(f.Decl.Body, func(nd ast.Node) bool {
				call, ok := nd.(*ast.CallExpr)
				if !ok {
					return true
				}
				g := core.Callee(info, call)
				if g == nil || g.Name() != e[0] || g.Pkg() == pkg.Types {
					return true
				}
				n++
				roots := rootsOf(f.Obj, e[1])
				if len(roots) != 1 || !roots[e[1]] {
					good = false
					c.Fail("C19.stream", e[0]+"@"+f.Name(), call.Pos(), "agent.%s on the UDF stream is reachable from %v; it must be reachable from %s only: two goroutines on one stream interleave frames", e[0], an.SortedKeys(roots), e[1])
				}
				return true
			})
		}
		c.Floor("C19.stream", "agent."+e[0]+" call sites on the server", n, 1)
		if good && n > 0 {
			c.Ok("C19.stream", e[0])
		}
	}
	// the agent side of the same stream: one writer (writeLoop), one reader (readLoop)
	if ap := c.P.Pkg("udf/agent"); ap != nil {
		ainfo := ap.TypesInfo
		for _, e := range [][2]string{{"WriteMessage", "writeLoop"}, {"ReadMessage", "readLoop"}} {
			n, good := 0, true
			for _, f := range core.AllFuncs(ap) {
				if f.Decl.Body == nil || core.RecvTypeName(f.Obj) != "Agent" {
					continue
				}
				ast.Inspect(f.Decl.Body, func(nd ast.Node) bool {
					call, ok := nd.(*ast.CallExpr)
					if !ok {
						return true
					}
					g := core.Callee(ainfo, call)
					if g == nil || g.Name() != e[0] || g.Pkg() != ap.Types {
						return true
					}
					n++
					if f.Decl.Name.Name != e[1] {
						good = false
						c.Fail("C19.stream", "agent."+e[0]+"@"+f.Name(), call.Pos(), "the agent calls %s on its stream from %s; only %s may: a second goroutine writing frames (each frame is two Write calls) lets one frame land between the length header and the body of another, and the peer reads garbage", e[0], f.Decl.Name.Name, e[1])
					}
					return true
				})
			}
			c.Floor("C19.stream", "agent "+e[0]+" call sites", n, 1)
			if good && n > 0 {
				c.Ok("C19.stream", "agent."+e[0])
			}
		}
	}
	if fn := c.Need("C19.stream", "udf", "Server", "Start"); fn != nil {
		gos := map[string]int{}
		ast.Inspect(fn.Decl.Body, func(n ast.Node) bool {
			if g, ok := n.(*ast.GoStmt); ok {
				ast.Inspect(g, func(m ast.Node) bool {
					if call, ok := m.(*ast.CallExpr); ok {
						if f := core.Callee(info, call); f != nil && (f.Name() == "writeData" || f.Name() == "readData") {
							gos[f.Name()]++
						}
					}
					return true
				})
			}
			return true
		})
		c.Check(gos["writeData"] == 1 && gos["readData"] == 1, "C19.stream", "Server.Start", fn.Decl.Pos(), "Start must launch exactly one writer and one reader (writeData %d, readData %d)", gos["writeData"], gos["readData"])
	}
}

func c19Pump(c *core.Ctx, pkg *packages.Package) {
	info := pkg.TypesInfo
	if fn := c.Need("C19.pump", "", "UDFNode", "runUDF"); fn != nil {
		var gos []*ast.FuncLit
		ast.Inspect(fn.Decl.Body, func(n ast.Node) bool {
			if g, ok := n.(*ast.GoStmt); ok {
				if fl, ok := g.Call.Fun.(*ast.FuncLit); ok {
					gos = append(gos, fl)
				}
			}
			return true
		})
		okOut, okIn := false, false
		for _, fl := range gos {
			ast.Inspect(fl.Body, func(n ast.Node) bool {
				switch x := n.(type) {
				case *ast.RangeStmt:
					// for m := range out { Forward(n.outs, m) → error ends }
					fw := false
					skip := false
					ast.Inspect(x.Body, func(m ast.Node) bool {
						switch y := m.(type) {
						case *ast.CallExpr:
							if f := core.Callee(info, y); f != nil && f.Name() == "Forward" && len(y.Args) == 2 && types.ExprString(y.Args[0]) == an.RecvVarName(fn.Decl)+".outs" && x.Key != nil && types.ExprString(y.Args[1]) == types.ExprString(x.Key) {
								fw = true
							}
						case *ast.BranchStmt:
							skip = true
						}
						return true
					})
					if fw && !skip {
						okOut = true
					}
				case *ast.ForStmt:
					// for m, ok := n.ins[0].Emit(); ok; … { select { case in <- m: case <-n.aborted: return } }
					init, isAssign := x.Init.(*ast.AssignStmt)
					if !isAssign || len(init.Lhs) != 2 || types.ExprString(x.Cond) != types.ExprString(init.Lhs[1]) {
						return true
					}
					msgVar := types.ExprString(init.Lhs[0])
					sent, other := false, 0
					ast.Inspect(x.Body, func(m ast.Node) bool {
						switch y := m.(type) {
						case *ast.SendStmt:
							if types.ExprString(y.Value) == msgVar {
								sent = true
							}
						case *ast.CommClause:
							if y.Comm == nil {
								other += 10
							} else if _, isSend := y.Comm.(*ast.SendStmt); !isSend {
								if !strings.HasSuffix(types.ExprString(commRecv(y.Comm)), ".aborted") {
									other++
								}
							}
						case *ast.BranchStmt:
							other++
						}
						return true
					})
					if sent && other == 0 {
						okIn = true
					}
				}
				return true
			})
		}
		c.Check(okOut, "C19.pump", "UDFNode.runUDF#out", fn.Decl.Pos(), "every message the UDF returns must be forwarded to all children (range over udf.Out() with edge.Forward(n.outs, m), nothing skipped)")
		c.Check(okIn, "C19.pump", "UDFNode.runUDF#in", fn.Decl.Pos(), "every message of the input edge must be sent to udf.In(), the only alternative being the abort signal (no default arm, no skip)")
		// order after the pumps: wg.Wait → udf.Close → <-forwardErr ; and no Abort
		var wait, cls, res token.Pos
		abort := false
		var aborts []token.Pos
		for _, st := range fn.Decl.Body.List {
			ast.Inspect(st, func(n ast.Node) bool {
				switch x := n.(type) {
				case *ast.FuncLit:
					return false
				case *ast.CallExpr:
					if sel, ok := x.Fun.(*ast.SelectorExpr); ok {
						switch {
						case sel.Sel.Name == "Wait" && strings.HasSuffix(types.ExprString(sel.X), ".wg"):
							wait = x.Pos()
						case sel.Sel.Name == "Close" && strings.HasSuffix(types.ExprString(sel.X), ".udf"):
							cls = x.Pos()
						case sel.Sel.Name == "Abort" && strings.HasSuffix(types.ExprString(sel.X), ".udf"):
							aborts = append(aborts, x.Pos())
						}
					}
				case *ast.UnaryExpr:
					if x.Op == token.ARROW {
						if tv, ok := info.Types[x.X]; ok {
							if ch, ok := tv.Type.Underlying().(*types.Chan); ok && types.Identical(ch.Elem(), types.Universe.Lookup("error").Type()) {
								res = x.Pos()
							}
						}
					}
				}
				return true
			})
		}
		// an Abort in front of the pumps (F105: the node was stopped while the UDF was being opened, nothing has been sent yet)
		// is not on the path that follows the exhausted input
		for _, a := range aborts {
			if wait != token.NoPos && a > wait {
				abort = true
			}
		}
		c.Check(wait != token.NoPos && cls != token.NoPos && res != token.NoPos && wait < cls && cls < res && !abort, "C19.pump", "UDFNode.runUDF#finish", fn.Decl.Pos(), "when the input is exhausted the node must wait for its writer, Close the UDF (which lets it answer what it still holds) and only then take the forwarder's result; Abort on this path discards the UDF's remaining output (order ok %v, abort %v)", wait < cls && cls < res, abort)
	}
	if fn := c.Need("C19.pipes", "", "UDFProcess", "Open"); fn != nil {
		var stderr, waitIO, cmdWait token.Pos
		ast.Inspect(fn.Decl.Body, func(n ast.Node) bool {
			g, ok := n.(*ast.GoStmt)
			if !ok {
				return true
			}
			ast.Inspect(g, func(m ast.Node) bool {
				if call, ok := m.(*ast.CallExpr); ok {
					if sel, ok := call.Fun.(*ast.SelectorExpr); ok {
						x := types.ExprString(sel.X)
						switch {
						case sel.Sel.Name == "Wait" && strings.HasSuffix(x, ".logStdErrGroup"):
							stderr = call.Pos()
						case sel.Sel.Name == "WaitIO":
							waitIO = call.Pos()
						case sel.Sel.Name == "Wait" && func() bool {
							tv, ok := info.Types[sel.X]
							return ok && strings.HasSuffix(tv.Type.String(), "exec.Cmd") || ok && strings.HasSuffix(tv.Type.String(), "command.Command") || ok && strings.Contains(tv.Type.String(), "Command")
						}():
							cmdWait = call.Pos()
						}
					}
				}
				return true
			})
			return false
		})
		c.Check(stderr != token.NoPos && waitIO != token.NoPos && cmdWait != token.NoPos && stderr < cmdWait && waitIO < cmdWait, "C19.pipes", "UDFProcess.Open#reaper", fn.Decl.Pos(), "the reaper must wait for the stderr logger and the server's IO before cmd.Wait(): exec.Cmd.Wait closes the stdout pipe, and responses the process wrote just before exiting are lost if they have not been read yet (stderr waited %v, IO waited first %v)", stderr != token.NoPos && stderr < cmdWait, waitIO != token.NoPos && waitIO < cmdWait)
	}
	if fn := c.Need("C19.snapshot", "", "UDFNode", "snapshot"); fn != nil {
		ok1 := false
		ast.Inspect(fn.Decl.Body, func(n ast.Node) bool {
			if r, ok := n.(*ast.ReturnStmt); ok && len(r.Results) == 1 && strings.HasSuffix(types.ExprString(r.Results[0]), ".udf.Snapshot()") {
				ok1 = true
			}
			return true
		})
		c.Check(ok1, "C19.snapshot", "UDFNode.snapshot", fn.Decl.Pos(), "the node's snapshot must be the UDF's snapshot bytes unchanged")
	}
	if fn := c.Need("C19.snapshot", "", "UDFNode", "runUDF"); fn != nil {
		ok2 := false
		ast.Inspect(fn.Decl.Body, func(n ast.Node) bool {
			if call, ok := n.(*ast.CallExpr); ok {
				if sel, ok := call.Fun.(*ast.SelectorExpr); ok && sel.Sel.Name == "Restore" && len(call.Args) == 1 && types.ExprString(call.Args[0]) == an.ParamName(fn.Decl.Type, 0) {
					ok2 = true
				}
			}
			return true
		})
		c.Check(ok2, "C19.snapshot", "UDFNode.runUDF#restore", fn.Decl.Pos(), "a saved snapshot must be handed to the UDF's Restore unchanged")
	}
}

// c19Renamer rewrites the function's own names for its receiver and for the variable bound by its type switch to the names
// the reference tables use ("s", "msg"), so that the tables do not depend on what the source calls them.
func c19Renamer(fn *core.Func) func(string) string {
	recv := an.RecvVarName(fn.Decl)
	sw := ""
	ast.Inspect(fn.Decl.Body, func(n ast.Node) bool {
		if ts, ok := n.(*ast.TypeSwitchStmt); ok && sw == "" {
			if as, ok := ts.Assign.(*ast.AssignStmt); ok && len(as.Lhs) == 1 {
				sw = types.ExprString(as.Lhs[0])
			}
		}
		return true
	})
	return func(k string) string {
		k = replaceIdent(k, recv, "s")
		if sw != "" {
			k = replaceIdent(k, sw, "msg")
		}
		return k
	}
}
