package props

import (
	"go/ast"
	"go/token"
	"go/types"
	"regexp"
	"sort"
	"strings"

	"golang.org/x/tools/go/packages"

	"kapcheck/an"
	"kapcheck/core"
)

func init() {
	register(&Property{
		ID:               "C20",
		Patterns:         []string{"./services/httpd", "./auth", "./services/auth"},
		ThoroughPatterns: []string{"./..."},
		Run:              runC20,
		Explanation: "Authorisation as structure: every route handler registered on the mux is authenticate(authorize|authorizeForward(route handler)) under the fixed wrapper chain and only addRawRoute registers; " +
			"in authenticate the inner handler runs as admin only when authentication is off, otherwise only with a user returned without error by the auth service and never after an HttpError; " +
			"authorize* call the inner handler only after authorizeRequest succeeded on the same request and user; the method→privilege table equals the documented one; the resource checked is APIResource(TrimPrefix(path)); " +
			"AuthorizeAction looks up only path.Clean(resource) and its path.Dir ancestors, the first grant on the chain decides, non-absolute resources are refused; the line-protocol write path calls WritePoints only after a " +
			"successful write-privilege check on DatabaseResource of the very database it writes to; the mux redirects every non-canonical path instead of serving it; DatabaseResource must be injective (it is not: known finding F17). " +
			"NOT decided: credential verification (bcrypt/JWT), pprof bypass policy, httprouter pattern matching.",
		Assumptions: []string{"path.Clean/path.Dir/strings.TrimPrefix behave as documented", "the JWT and password libraries verify what they claim to verify"},
	})
}

func runC20(c *core.Ctx) {
	c20Wiring(c)
	c20CacheKey(c)
	c.Rule("C20.route", "A6/A3: ServeMux.Handle is called only from addRawRoute (and the mux's own HandleFunc, which nobody calls); on every path the handler registered is wrappers*(authenticate(authorize|authorizeForward(<the route's handler>), h, requireAuth)) and requireAuth is false only when authentication is off or the route bypasses it with pprof exposed")
	c.Rule("C20.authn", "A1: in authenticate's handler the inner handler is called exactly once on success paths: with AdminUser iff ¬requireAuthentication, else with the user returned by Authenticate/User/SubscriptionUser on that call's nil-error path; no inner call after an HttpError; a bearer token's user is served only on paths where the token's exp claim was found present and positive (the default arm is dead: every credentials.Method written in the package has a case)")
	c.Rule("C20.authz", "A2: in authorize/authorizeForward the inner handler is called iff authorizeRequest(r,user) returned nil, with the same request (and user)")
	c.Rule("C20.method", "A7: requiredPrivilegeForHTTPMethod = {HEAD,OPTIONS→none; GET→read; POST,PATCH,PUT→write; DELETE→delete; else error}")
	c.Rule("C20.request", "A3/A1: authorizeRequest authorises Action{Resource: APIResource(TrimPrefix(r.URL.Path, BasePath)), Privilege: requiredPrivilegeForHTTPMethod(r.Method)} and returns nil only when both the privilege lookup and AuthorizeAction returned nil")
	c.Rule("C20.newuser", "A7: F56: NewUser stores each grant under path.Clean(resource) and merges (|=) the masks of keys that clean to the same path")
	c.Rule("C20.nearest", "A1/A3: AuthorizeAction: NoPrivileges ∨ admin ⇒ allow; ¬IsAbs ⇒ error; every index of the privilege table is path.Clean(action.Resource) or path.Dir of the previous key; a hit decides (allow iff p&(priv|All)≠0: all is a bit of the mask, F55) and is never followed by another lookup; no hit ⇒ deny")
	c.Rule("C20.write", "A2/A3: serveWriteLine reaches WritePoints only after AuthorizeAction(Action{DatabaseResource(db), WritePrivilege}) returned nil, and db is the value passed to WritePoints")
	c.Rule("C20.mux", "A1: ServeMux.Handler answers a request whose path differs from cleanPath(path) with a redirect to the cleaned path, never with a registered handler; rewritePreview re-enters ServeHTTP")
	c.Rule("C20.dbclean", "A1: DatabaseResource marks a name clean exactly when it contains no '/', joins the unmodified name then, and the '/'-free replacement with the dirty mark otherwise (a clean-marked name that still contains '/' is swallowed or split by path.Join); the empty name is the root resource")
	c.Rule("C20.dbresource", "A12: DatabaseResource derives the resource element from the database name through injective steps only (distinct names ⇒ distinct resources)")

	httpd := c.P.Pkg("services/httpd")
	authp := c.P.Pkg("auth")
	if httpd == nil || authp == nil {
		c.Undecided("C20.route", "anchor:packages", token.NoPos, "services/httpd or auth not loaded")
		return
	}
	c20Route(c, httpd)
	c20Authn(c, httpd)
	c20Authz(c, httpd)
	c20Method(c, httpd)
	c20Request(c, httpd)
	c20Nearest(c, authp)
	c20NewUser(c, authp)
	c20Write(c, httpd)
	c20Mux(c, httpd)
	c20DBResource(c, authp)
	c20DBClean(c, authp)
}

var c20Wrappers = []string{"recovery", "logHandler", "requestID", "cors", "versionHeader", "gzipFilter", "jsonContent"}

// stripCall: key "name(a, b, c)" → (name, [a b c]) with nesting respected.
func splitCall(key string) (string, []string) {
	i := strings.Index(key, "(")
	if i < 0 || !strings.HasSuffix(key, ")") {
		return "", nil
	}
	name := key[:i]
	if j := strings.LastIndex(name, "."); j >= 0 {
		name = name[j+1:]
	}
	body := key[i+1 : len(key)-1]
	var args []string
	depth, start := 0, 0
	for j, r := range body {
		switch r {
		case '(', '[', '{':
			depth++
		case ')', ']', '}':
			depth--
		case ',':
			if depth == 0 {
				args = append(args, strings.TrimSpace(body[start:j]))
				start = j + 1
			}
		}
	}
	args = append(args, strings.TrimSpace(body[start:]))
	return name, args
}

func c20Route(c *core.Ctx, httpd *packages.Package) {
	// who may call (*ServeMux).Handle / HandleFunc — over every loaded kapacitor package
	callers := map[string][]token.Pos{}
	nPk := 0
	for _, pkg := range c.P.ModPkgs {
		nPk++
		for _, f := range core.AllFuncs(pkg) {
			ast.Inspect(f.Decl.Body, func(n ast.Node) bool {
				call, ok := n.(*ast.CallExpr)
				if !ok {
					return true
				}
				fn := core.Callee(pkg.TypesInfo, call)
				if fn != nil && fn.Pkg() == httpd.Types && core.RecvTypeName(fn) == "ServeMux" && (fn.Name() == "Handle" || fn.Name() == "HandleFunc") {
					k := f.Name() + "→" + fn.Name()
					callers[k] = append(callers[k], call.Pos())
				}
				return true
			})
		}
	}
	okCallers := map[string]bool{"(*services/httpd.Handler).addRawRoute→Handle": true, "(*services/httpd.ServeMux).HandleFunc→Handle": true}
	for _, k := range an.SortedKeys(callers) {
		c.Check(okCallers[k], "C20.route", "caller:"+k, callers[k][0], "route registration outside addRawRoute: a handler can be installed without the authentication/authorisation wrappers")
	}
	c.Floor("C20.route", "ServeMux.Handle call sites", len(callers), 2)

	fn := c.Need("C20.route", "services/httpd", "Handler", "addRawRoute")
	if fn == nil {
		return
	}
	info := httpd.TypesInfo
	eng := &an.Engine{Prog: c.P,
		TrackCall: func(call *ast.CallExpr, callee *types.Func) string {
			if callee != nil && callee.Name() == "Handle" && core.RecvTypeName(callee) == "ServeMux" {
				return "Handle"
			}
			return ""
		},
		Classify: func(a an.Atom) (string, bool) {
			switch {
			case an.FieldSel(info, a.Expr, "Handler", "requireAuthentication"):
				return "requireAuth", false
			case an.FieldSel(info, a.Expr, "Route", "BypassAuth"):
				return "bypass", false
			case an.FieldSel(info, a.Expr, "Handler", "exposePprof"):
				return "pprof", false
			}
			return "", false
		}}
	paths, err := eng.Run(fn)
	if err != nil {
		c.Undecided("C20.route", "Handler.addRawRoute", fn.Decl.Pos(), "%v", err)
		return
	}
	routeVar := an.ParamName(fn.Decl.Type, 0)
	n := 0
	seen := map[string]bool{}
	for _, p := range paths {
		ev := p.Find("Handle")
		if ev == nil {
			continue
		}
		n++
		if len(ev.Args) != 2 {
			c.Fail("C20.route", "Handler.addRawRoute#Handle-args", ev.Pos, "unexpected Handle signature")
			continue
		}
		key := ev.Args[1]
		// peel the wrapper chain
		chain := []string{}
		for {
			name, args := splitCall(key)
			if name == "" || len(args) == 0 {
				break
			}
			isWrapper := false
			for _, w := range c20Wrappers {
				if name == w {
					isWrapper = true
				}
			}
			if !isWrapper {
				break
			}
			chain = append(chain, name)
			key = args[0]
		}
		name, args := splitCall(key)
		sig := strings.Join(chain, ">")
		cons := "Handler.addRawRoute#" + sig
		if name != "authenticate" || len(args) != 3 {
			c.Fail("C20.route", cons+"#base", ev.Pos, "the handler registered is not authenticate(…) under the known wrappers but %s", an.SortedKeys(map[string]bool{key: true}))
			continue
		}
		in, inArgs := splitCall(args[0])
		if (in != "authorize" && in != "authorizeForward") || len(inArgs) != 1 || !strings.HasPrefix(inArgs[0], routeVar+".HandlerFunc.(") {
			c.Fail("C20.route", cons+"#authorize", ev.Pos, "authenticate must wrap authorize/authorizeForward(<the route's own handler>), wraps %s", args[0])
			continue
		}
		// requireAuth provenance
		a := p.Assign()
		switch args[2] {
		case "false":
			good := !a["requireAuth"] || (a["bypass"] && a["pprof"])
			if !good {
				c.Fail("C20.route", cons+"#requireAuth", ev.Pos, "authentication is switched off on a path where it is required and not bypassed: [%s]", p.Cond())
				continue
			}
		case "true":
		default:
			if !strings.HasSuffix(args[2], ".requireAuthentication") {
				c.Fail("C20.route", cons+"#requireAuth", ev.Pos, "requireAuthentication argument is %s", args[2])
				continue
			}
		}
		if len(chain) == 0 || chain[0] != "recovery" {
			c.Fail("C20.route", cons+"#recovery-last", ev.Pos, "recovery must be the outermost wrapper")
			continue
		}
		if !seen[cons+in] {
			seen[cons+in] = true
			c.Ok("C20.route", cons+"#"+in)
		}
	}
	c.Floor("C20.route", "paths reaching Handle", n, 2)
}

func findFuncLit(body *ast.BlockStmt) *ast.FuncLit {
	var fl *ast.FuncLit
	ast.Inspect(body, func(n ast.Node) bool {
		if fl != nil {
			return false
		}
		if f, ok := n.(*ast.FuncLit); ok {
			fl = f
			return false
		}
		return true
	})
	return fl
}

func c20Authn(c *core.Ctx, httpd *packages.Package) {
	fn := c.Need("C20.authn", "services/httpd", "", "authenticate")
	if fn == nil {
		return
	}
	info := httpd.TypesInfo
	fl := findFuncLit(fn.Decl.Body)
	if fl == nil {
		c.Undecided("C20.authn", "authenticate", fn.Decl.Pos(), "no handler closure found")
		return
	}
	innerName := an.ParamName(fn.Decl.Type, 0)
	reqAuth := an.ParamName(fn.Decl.Type, 2)
	userSources := map[string]bool{"Authenticate": true, "User": true, "SubscriptionUser": true}
	eng := &an.Engine{Prog: c.P, Info: info,
		TrackCall: func(call *ast.CallExpr, callee *types.Func) string {
			if id, ok := ast.Unparen(call.Fun).(*ast.Ident); ok && id.Name == innerName {
				return "inner"
			}
			if callee != nil && callee.Name() == "HttpError" {
				return "HttpError"
			}
			if callee != nil && userSources[callee.Name()] && core.RecvTypeName(callee) == "Interface" {
				return "src:" + callee.Name()
			}
			return ""
		},
		Classify: func(a an.Atom) (string, bool) {
			if a.Key == reqAuth {
				return "requireAuth", false
			}
			if k, ok := an.ErrNilAtom(info, a); ok {
				for s := range userSources {
					if an.CallResultOf(k, s, 1) {
						return "srcerr", true
					}
				}
			}
			if a.Op == token.EQL && strings.HasSuffix(a.L, ".sharedSecret") && a.R == `""` {
				return "nosecret", false
			}
			if a.Op == token.EQL && a.R == "0" && strings.HasPrefix(a.L, "len(") && strings.HasSuffix(a.L, ".sharedSecret)") {
				return "nosecret", false
			}
			// the bearer token's expiry claim: presence (comma-ok of the type assertion) and sign
			if strings.Contains(a.Key, `["exp"].(float64)`) {
				switch {
				case strings.HasSuffix(a.Key, `["exp"].(float64).1`):
					return "exp:present", false
				case a.Op == token.LEQ && strings.HasSuffix(a.L, `["exp"].(float64).0`) && (a.R == "0.0" || a.R == "0"):
					return "exp:nonpositive", false
				case a.Op == token.GTR && strings.HasSuffix(a.L, `["exp"].(float64).0`) && (a.R == "0.0" || a.R == "0"):
					return "exp:nonpositive", true
				case a.Op == token.LSS && strings.HasSuffix(a.R, `["exp"].(float64).0`) && (a.L == "0.0" || a.L == "0"):
					return "exp:nonpositive", true // the engine's normal form of exp <= 0 is ¬(0 < exp)
				case a.Op == token.GEQ && strings.HasSuffix(a.R, `["exp"].(float64).0`) && (a.L == "0.0" || a.L == "0"):
					return "exp:nonpositive", false
				}
			}
			if a.Op == token.EQL && strings.HasSuffix(a.L, ".Method") && strings.HasSuffix(a.R, "Authentication") {
				return "method:" + a.R[strings.LastIndex(a.R, ".")+1:], false
			}
			return "", false
		}}
	paths, err := eng.RunBody(fl.Type, nil, fl.Body)
	if err != nil {
		c.Undecided("C20.authn", "authenticate", fl.Pos(), "%v", err)
		return
	}
	c.Sites(len(paths))
	// enumeration: every Method written into a credentials literal has a case
	cases := map[string]bool{}
	ast.Inspect(fl.Body, func(n ast.Node) bool {
		if cc, ok := n.(*ast.CaseClause); ok {
			for _, e := range cc.List {
				if id, ok := e.(*ast.Ident); ok {
					if _, isConst := info.Uses[id].(*types.Const); isConst {
						cases[id.Name] = true
					}
				}
			}
		}
		return true
	})
	written := map[string]token.Pos{}
	for _, f := range core.AllFuncs(httpd) {
		ast.Inspect(f.Decl.Body, func(n ast.Node) bool {
			switch x := n.(type) {
			case *ast.CompositeLit:
				if !an.TypeNamed(info, x, "httpd", "credentials") {
					return true
				}
				for _, el := range x.Elts {
					if kv, ok := el.(*ast.KeyValueExpr); ok {
						if id, ok := kv.Key.(*ast.Ident); ok && id.Name == "Method" {
							written[types.ExprString(kv.Value)] = kv.Pos()
						}
					}
				}
			case *ast.AssignStmt:
				for i, l := range x.Lhs {
					if an.FieldSel(info, l, "credentials", "Method") && i < len(x.Rhs) {
						written[types.ExprString(x.Rhs[i])] = x.Pos()
					}
				}
			}
			return true
		})
	}
	deadDefault := len(written) > 0
	for _, w := range an.SortedKeys(written) {
		if !cases[w] {
			deadDefault = false
			c.Fail("C20.authn", "authenticate#method-enumeration:"+w, written[w], "credentials.Method value %s has no case in authenticate: the default arm (which falls through to the inner handler) becomes reachable", w)
		} else {
			c.Ok("C20.authn", "authenticate#method-enumeration:"+w)
		}
	}
	c.Floor("C20.authn", "credentials.Method values written", len(written), 3)

	nInner, nBearer := 0, 0
	for _, p := range paths {
		a := p.Assign()
		// paths on which no method case matched are infeasible when the enumeration holds
		anyMethod, allFalse := false, true
		for k, v := range a {
			if strings.HasPrefix(k, "method:") {
				anyMethod = true
				if v {
					allFalse = false
				}
			}
		}
		if anyMethod && allFalse && len(cases) > 0 && countPrefix(a, "method:") == len(cases) && deadDefault {
			continue
		}
		ii := p.Index("inner")
		cons := "authenticate#" + shortCond(p)
		if p.Count("inner") > 1 {
			c.Fail("C20.authn", cons+"#once", p.RetPos, "inner handler called more than once")
			continue
		}
		if ii < 0 {
			// no inner call: must have reported an error, unless … nothing else is acceptable
			if !p.Has("HttpError") {
				c.Fail("C20.authn", cons+"#silent", p.RetPos, "path neither serves nor reports an authentication error: [%s]", p.Cond())
			} else {
				c.Ok("C20.authn", cons+"#refused")
			}
			continue
		}
		nInner++
		ev := p.Events[ii]
		if hi := p.Index("HttpError"); hi >= 0 && hi < ii {
			c.Fail("C20.authn", cons+"#after-error", ev.Pos, "the inner handler is called after an authentication error was reported: [%s]", p.Cond())
			continue
		}
		if len(ev.Args) != 3 {
			c.Fail("C20.authn", cons+"#args", ev.Pos, "unexpected inner signature")
			continue
		}
		user := ev.Args[2]
		if ra, decided := a["requireAuth"]; decided && !ra {
			c.Check(user == "auth.AdminUser", "C20.authn", cons+"#admin-when-off", ev.Pos, "with authentication off the inner handler gets %s", user)
			continue
		}
		// authentication required: the user must be the `.0` result of a source call whose error was tested nil
		good := false
		for s := range userSources {
			if an.CallResultOf(user, s, 0) && p.Has("src:"+s) {
				good = true
			}
		}
		se, decided := a["srcerr"]
		if !good || !decided || se {
			c.Fail("C20.authn", cons+"#user", ev.Pos, "with authentication required the inner handler runs with user %q (source error tested nil: %v) on path [%s]", user, decided && !se, p.Cond())
			continue
		}
		// a bearer token is a credential only with an expiry: the jwt library validates exp only when the claim is present, so
		// the user named by the token may be served only on paths where the claim was found present and positive
		if an.CallResultOf(user, "User", 0) {
			nBearer++
			if ns, d := a["nosecret"]; !d || ns {
				c.Fail("C20.authn", cons+"#secret-configured", ev.Pos, "a bearer token is accepted on a path that did not establish that a shared secret is configured (decided: %v): the key handed to the JWT library is []byte(sharedSecret) whatever the secret, shared-secret defaults to \"\", so a token signed with the empty key is valid and its bearer is served as any user it names, without a password; path [%s]", d, p.Cond())
				continue
			}
			present, d1 := a["exp:present"]
			nonpos, d2 := a["exp:nonpositive"]
			if !(d1 && present && d2 && !nonpos) {
				c.Fail("C20.authn", cons+"#token-expiry", ev.Pos, "a bearer token is accepted on a path that did not establish a present, positive exp claim (present decided %v=%v, non-positive decided %v=%v): a token signed with the shared secret but without exp never expires and is served as whatever user it names, admin included; path [%s]", d1, present, d2, nonpos, p.Cond())
				continue
			}
		}
		c.Ok("C20.authn", cons+"#served")
	}
	c.Floor("C20.authn", "paths calling the inner handler", nInner, 4)
	c.Floor("C20.authn", "paths serving a bearer token's user", nBearer, 1)
}

func countPrefix(a map[string]bool, pre string) int {
	n := 0
	for k := range a {
		if strings.HasPrefix(k, pre) {
			n++
		}
	}
	return n
}

func c20Authz(c *core.Ctx, httpd *packages.Package) {
	info := httpd.TypesInfo
	for _, name := range []string{"authorize", "authorizeForward"} {
		fn := c.Need("C20.authz", "services/httpd", "", name)
		if fn == nil {
			continue
		}
		fl := findFuncLit(fn.Decl.Body)
		if fl == nil {
			c.Undecided("C20.authz", name, fn.Decl.Pos(), "no closure")
			continue
		}
		innerName := an.ParamName(fn.Decl.Type, 0)
		eng := &an.Engine{Prog: c.P, Info: info,
			TrackCall: func(call *ast.CallExpr, callee *types.Func) string {
				if id, ok := ast.Unparen(call.Fun).(*ast.Ident); ok && id.Name == innerName {
					return "inner"
				}
				if callee != nil && callee.Name() == "authorizeRequest" {
					return "authorizeRequest"
				}
				return ""
			},
			Classify: func(a an.Atom) (string, bool) {
				if k, ok := an.ErrNilAtom(info, a); ok && strings.HasPrefix(k, "httpd.authorizeRequest(") {
					return "denied", true
				}
				return "", false
			}}
		paths, err := eng.RunBody(fl.Type, nil, fl.Body)
		if err != nil {
			c.Undecided("C20.authz", name, fl.Pos(), "%v", err)
			continue
		}
		an.CheckTable(c, "C20.authz", name, paths, an.Table{Atoms: []string{"denied"},
			Outcome: func(p *an.Path) string { return an.Seq(p, "authorizeRequest", "inner") },
			Expect: func(a map[string]bool) string {
				if a["denied"] {
					return "authorizeRequest"
				}
				return "authorizeRequest,inner"
			}})
		w, r, u := an.ParamName(fl.Type, 0), an.ParamName(fl.Type, 1), an.ParamName(fl.Type, 2)
		for _, p := range paths {
			ar, in := p.Find("authorizeRequest"), p.Find("inner")
			if ar != nil {
				c.Check(len(ar.Args) == 2 && ar.Args[0] == r && ar.Args[1] == u, "C20.authz", name+"#checks-this-request", ar.Pos, "authorizeRequest must get the closure's own request and user, gets %v", ar.Args)
			}
			if in != nil {
				good := len(in.Args) >= 2 && in.Args[0] == w && in.Args[1] == r && (len(in.Args) == 2 || in.Args[2] == u)
				c.Check(good, "C20.authz", name+"#serves-this-request", in.Pos, "inner must get the same request (and user), gets %v", in.Args)
			}
		}
	}
}

func c20Method(c *core.Ctx, httpd *packages.Package) {
	fn := c.Need("C20.method", "services/httpd", "", "requiredPrivilegeForHTTPMethod")
	if fn == nil {
		return
	}
	info := httpd.TypesInfo
	want := map[string]string{"HEAD": "NoPrivileges", "OPTIONS": "NoPrivileges", "GET": "ReadPrivilege", "POST": "WritePrivilege", "PATCH": "WritePrivilege", "PUT": "WritePrivilege", "DELETE": "DeletePrivilege"}
	got := map[string]string{}
	defaultErr := false
	hasDefault := false
	ast.Inspect(fn.Decl.Body, func(n ast.Node) bool {
		cc, ok := n.(*ast.CaseClause)
		if !ok {
			return true
		}
		var ret *ast.ReturnStmt
		for _, s := range cc.Body {
			if r, ok := s.(*ast.ReturnStmt); ok {
				ret = r
			}
		}
		if ret == nil || len(ret.Results) != 2 {
			return true
		}
		priv := ""
		if sel, ok := ast.Unparen(ret.Results[0]).(*ast.SelectorExpr); ok {
			priv = sel.Sel.Name
		}
		if cc.List == nil {
			hasDefault = true
			defaultErr = !an.IsNil(info, ret.Results[1])
			return true
		}
		for _, e := range cc.List {
			if s, ok := strLit(info, e); ok {
				if an.IsNil(info, ret.Results[1]) {
					got[s] = priv
				} else {
					got[s] = "error"
				}
			}
		}
		return true
	})
	for _, m := range an.SortedKeys(want) {
		c.Check(got[m] == want[m], "C20.method", m, fn.Decl.Pos(), "documented privilege for %s is %s, the table says %q", m, want[m], got[m])
	}
	for _, m := range an.SortedKeys(got) {
		if _, ok := want[m]; !ok && got[m] != "error" {
			c.Fail("C20.method", "extra:"+m, fn.Decl.Pos(), "undocumented method %s is mapped to %s", m, got[m])
		}
	}
	c.Check(hasDefault && defaultErr, "C20.method", "default", fn.Decl.Pos(), "an unknown method must yield an error")
}

func c20Request(c *core.Ctx, httpd *packages.Package) {
	fn := c.Need("C20.request", "services/httpd", "", "authorizeRequest")
	if fn == nil {
		return
	}
	info := httpd.TypesInfo
	r, u := an.ParamName(fn.Decl.Type, 0), an.ParamName(fn.Decl.Type, 1)
	eng := &an.Engine{Prog: c.P,
		TrackCall: func(call *ast.CallExpr, callee *types.Func) string {
			if callee != nil && (callee.Name() == "AuthorizeAction" || callee.Name() == "requiredPrivilegeForHTTPMethod") {
				return callee.Name()
			}
			return ""
		},
		Classify: func(a an.Atom) (string, bool) {
			if k, ok := an.ErrNilAtom(info, a); ok {
				switch {
				case an.CallResultOf(k, "requiredPrivilegeForHTTPMethod", 1):
					return "badmethod", true
				case strings.Contains(k, ".AuthorizeAction("):
					return "denied", true
				}
			}
			return "", false
		}}
	paths, err := eng.Run(fn)
	if err != nil {
		c.Undecided("C20.request", "authorizeRequest", fn.Decl.Pos(), "%v", err)
		return
	}
	an.CheckTable(c, "C20.request", "authorizeRequest", paths, an.Table{Atoms: []string{"badmethod", "denied"},
		Outcome: func(p *an.Path) string {
			s := an.Seq(p, "requiredPrivilegeForHTTPMethod", "AuthorizeAction")
			if len(p.Rets) == 1 && p.Rets[0] == "nil" {
				return s + "→nil"
			}
			return s + "→err"
		},
		Expect: func(a map[string]bool) string {
			switch {
			case a["badmethod"]:
				return "requiredPrivilegeForHTTPMethod→err"
			case a["denied"]:
				return "requiredPrivilegeForHTTPMethod,AuthorizeAction→err"
			}
			return "requiredPrivilegeForHTTPMethod,AuthorizeAction→nil"
		}})
	for _, p := range paths {
		if rp := p.Find("requiredPrivilegeForHTTPMethod"); rp != nil {
			c.Check(len(rp.Args) == 1 && rp.Args[0] == r+".Method", "C20.request", "authorizeRequest#method-of-request", rp.Pos, "privilege must be derived from %s.Method, is derived from %v", r, rp.Args)
		}
		if aa := p.Find("AuthorizeAction"); aa != nil {
			c.Check(aa.Recv == u, "C20.request", "authorizeRequest#user", aa.Pos, "AuthorizeAction must be asked of the request's user %s, is asked of %s", u, aa.Recv)
			wantRes := "auth.APIResource(strings.TrimPrefix(" + r + ".URL.Path, httpd.BasePath))"
			good := len(aa.Args) == 1 && strings.Contains(aa.Args[0], "Resource: "+wantRes) && strings.Contains(aa.Args[0], "Privilege: httpd.requiredPrivilegeForHTTPMethod("+r+".Method).0")
			c.Check(good, "C20.request", "authorizeRequest#action", aa.Pos, "the action authorised must be {Resource: %s, Privilege: <method privilege>}, is %v", wantRes, aa.Args)
		}
	}
}

func c20Nearest(c *core.Ctx, authp *packages.Package) {
	fn := c.Need("C20.nearest", "auth", "User", "AuthorizeAction")
	if fn == nil {
		return
	}
	info := authp.TypesInfo
	act := an.ParamName(fn.Decl.Type, 0)
	// --- provenance of every index into the privilege table
	var idxVar types.Object
	nIdx := 0
	bad := false
	ast.Inspect(fn.Decl.Body, func(n ast.Node) bool {
		ix, ok := n.(*ast.IndexExpr)
		if !ok || !an.FieldSel(info, ix.X, "User", "privileges") {
			return true
		}
		nIdx++
		id, ok := ast.Unparen(ix.Index).(*ast.Ident)
		if !ok {
			bad = true
			c.Fail("C20.nearest", "AuthorizeAction#index-provenance", ix.Pos(), "the privilege table is indexed with %s, not with a cleaned-path variable", types.ExprString(ix.Index))
			return true
		}
		obj := info.Uses[id]
		if idxVar != nil && obj != idxVar {
			bad = true
			c.Fail("C20.nearest", "AuthorizeAction#index-provenance", ix.Pos(), "the privilege table is indexed through two different variables")
		}
		idxVar = obj
		return true
	})
	c.Floor("C20.nearest", "lookups in u.privileges", nIdx, 1)
	if idxVar != nil {
		nAssign := 0
		ast.Inspect(fn.Decl.Body, func(n ast.Node) bool {
			as, ok := n.(*ast.AssignStmt)
			if !ok {
				return true
			}
			for i, l := range as.Lhs {
				id, ok := l.(*ast.Ident)
				if !ok || (info.Defs[id] != idxVar && info.Uses[id] != idxVar) || i >= len(as.Rhs) {
					continue
				}
				nAssign++
				call, ok := ast.Unparen(as.Rhs[i]).(*ast.CallExpr)
				good := false
				if ok && len(call.Args) == 1 {
					if f := core.Callee(info, call); f != nil && f.Pkg() != nil && f.Pkg().Path() == "path" {
						arg := ast.Unparen(call.Args[0])
						switch f.Name() {
						case "Clean":
							if sel, ok := arg.(*ast.SelectorExpr); ok && sel.Sel.Name == "Resource" {
								if x, ok := sel.X.(*ast.Ident); ok && x.Name == act {
									good = true
								}
							}
						case "Dir":
							if x, ok := arg.(*ast.Ident); ok && info.Uses[x] == idxVar {
								good = true
							}
						}
					}
				}
				if !good {
					bad = true
					c.Fail("C20.nearest", "AuthorizeAction#index-provenance", as.Pos(), "the lookup key is assigned %s; only path.Clean(%s.Resource) and path.Dir(<key>) keep the lookup on the ancestor chain of the normalised resource", types.ExprString(as.Rhs[i]), act)
				}
			}
			return true
		})
		if !bad && nAssign >= 2 {
			c.Ok("C20.nearest", "AuthorizeAction#index-provenance")
		} else if !bad {
			c.Fail("C20.nearest", "AuthorizeAction#index-provenance", fn.Decl.Pos(), "expected the lookup key to be initialised with path.Clean and advanced with path.Dir; found %d assignment(s)", nAssign)
		}
	}
	// --- decision table
	eng := &an.Engine{Prog: c.P,
		TrackStore: func(lhs ast.Expr, key string) string {
			if id, ok := ast.Unparen(lhs).(*ast.Ident); ok && idxVar != nil && (info.Uses[id] == idxVar || info.Defs[id] == idxVar) {
				return "advance"
			}
			return ""
		},
		Classify: func(a an.Atom) (string, bool) {
			switch {
			case a.Op == token.EQL && strings.HasSuffix(a.L, ".Privilege") && a.R == "auth.NoPrivileges":
				return "nopriv", false
			case an.FieldSel(info, a.Expr, "User", "admin"):
				return "admin", false
			case strings.HasPrefix(a.Key, "path.IsAbs("+act+".Resource)"):
				return "abs", false
			case a.Op == token.LSS && a.L == "0" && strings.HasPrefix(a.R, "len(") && strings.HasSuffix(a.R, ".privileges)"):
				return "hasprivs", false
			case strings.HasSuffix(a.Key, "].1") && strings.Contains(a.Key, ".privileges["):
				return "hit", false
			case a.Op == token.EQL && a.R == "0" && strings.Contains(a.L, ".privileges[") && (strings.Contains(a.L, "].0 & ("+act+".Privilege | auth.AllPrivileges))") || strings.Contains(a.L, "].0 & (auth.AllPrivileges | "+act+".Privilege))")):
				return "granted", true
			case a.Op == token.EQL && a.R == "0" && strings.Contains(a.L, ".privileges[") && strings.Contains(a.L, "].0 & "+act+".Privilege)"):
				return "grants", true
			case a.Op == token.EQL && a.R == "auth.AllPrivileges" && strings.Contains(a.L, ".privileges["):
				return "all", false
			case a.Op == token.EQL && a.R == `"/"`:
				return "root", false
			}
			return "", false
		}}
	paths, err := eng.Run(fn)
	if err != nil {
		c.Undecided("C20.nearest", "AuthorizeAction", fn.Decl.Pos(), "%v", err)
		return
	}
	// F55: "all" is one bit of the grant's mask; comparing the whole mask with AllPrivileges loses it when the grant lists other
	// privileges too ({read, all} denied write)
	for _, p := range paths {
		for _, l := range p.Lits {
			if l.Name == "all" {
				c.Fail("C20.nearest", "AuthorizeAction#all-is-a-bit", l.Pos, "the all privilege is recognised by comparing the whole mask of the grant with AllPrivileges: a grant that lists all next to another privilege has a different mask and is not recognised as all")
				return
			}
		}
	}
	an.CheckTable(c, "C20.nearest", "AuthorizeAction", paths, an.Table{Atoms: []string{"nopriv", "admin", "abs", "hasprivs", "hit", "granted"},
		Outcome: func(p *an.Path) string {
			if len(p.Rets) != 1 {
				return "?"
			}
			switch {
			case p.Rets[0] == "nil":
				return "allow"
			case strings.HasPrefix(p.Rets[0], "fmt.Errorf("):
				return "invalid"
			case strings.HasPrefix(p.Rets[0], "auth.authError{"):
				return "deny"
			}
			return p.Rets[0]
		},
		Expect: func(a map[string]bool) string {
			switch {
			case a["nopriv"] || a["admin"]:
				return "allow"
			case !a["abs"]:
				return "invalid"
			case a["hasprivs"] && a["hit"] && a["granted"]:
				return "allow"
			}
			return "deny"
		}})
	// a hit is final: after a hit no further advance of the key, and the loop is left
	for _, p := range paths {
		a := p.Assign()
		if hit, ok := a["hit"]; ok && hit {
			adv := false
			for _, e := range p.Events {
				if e.Kind == "store" && e.Name == "advance" && strings.HasPrefix(e.Args[0], "path.Dir(") {
					adv = true
				}
				if e.Kind == "continue" {
					adv = true
				}
			}
			c.Check(!adv, "C20.nearest", "AuthorizeAction#hit-is-final", p.RetPos, "after a grant was found on the chain the search goes on to an ancestor: a nearer grant no longer decides; path [%s]", p.Cond())
		}
	}
}

func c20Write(c *core.Ctx, httpd *packages.Package) {
	fn := c.Need("C20.write", "services/httpd", "Handler", "serveWriteLine")
	if fn == nil {
		return
	}
	info := httpd.TypesInfo
	eng := &an.Engine{Prog: c.P,
		TrackCall: func(call *ast.CallExpr, callee *types.Func) string {
			if callee != nil && (callee.Name() == "WritePoints" || callee.Name() == "AuthorizeAction") {
				return callee.Name()
			}
			return ""
		},
		Classify: func(a an.Atom) (string, bool) {
			if k, ok := an.ErrNilAtom(info, a); ok && strings.Contains(k, ".AuthorizeAction(") {
				return "denied", true
			}
			return "", false
		}}
	paths, err := eng.Run(fn)
	if err != nil {
		c.Undecided("C20.write", "Handler.serveWriteLine", fn.Decl.Pos(), "%v", err)
		return
	}
	user := an.ParamName(fn.Decl.Type, 3)
	n := 0
	good := true
	for _, p := range paths {
		wp := p.Find("WritePoints")
		if wp == nil {
			continue
		}
		n++
		aa := p.Find("AuthorizeAction")
		a := p.Assign()
		den, decided := a["denied"]
		if aa == nil || p.Index("AuthorizeAction") > p.Index("WritePoints") || !decided || den {
			good = false
			c.Fail("C20.write", "Handler.serveWriteLine#guard", wp.Pos, "WritePoints is reached without a preceding successful AuthorizeAction on path [%s]", p.Cond())
			continue
		}
		db := wp.Args[0]
		want := "auth.Action{Resource: auth.DatabaseResource(" + db + "), Privilege: auth.WritePrivilege}"
		if len(aa.Args) != 1 || aa.Args[0] != want || aa.Recv != user {
			good = false
			c.Fail("C20.write", "Handler.serveWriteLine#same-db", aa.Pos, "the check must be %s.AuthorizeAction(%s) for the database written (%s); it is %s.AuthorizeAction(%v)", user, want, db, aa.Recv, aa.Args)
		}
	}
	c.Floor("C20.write", "paths reaching WritePoints", n, 1)
	if good && n > 0 {
		c.Ok("C20.write", "Handler.serveWriteLine")
	}
	// the write route must hand the authenticated user through: serveWrite passes its user parameter
	if sw := c.Need("C20.write", "services/httpd", "Handler", "serveWrite"); sw != nil {
		u := an.ParamName(sw.Decl.Type, 2)
		ok := false
		bad := false
		ast.Inspect(sw.Decl.Body, func(n ast.Node) bool {
			if call, ok2 := n.(*ast.CallExpr); ok2 {
				if f := core.Callee(info, call); f != nil && f.Name() == "serveWriteLine" {
					if id, isId := ast.Unparen(call.Args[len(call.Args)-1]).(*ast.Ident); isId && id.Name == u {
						ok = true
					} else {
						bad = true
					}
				}
			}
			return true
		})
		c.Check(ok && !bad, "C20.write", "Handler.serveWrite#passes-user", sw.Decl.Pos(), "serveWrite must hand its authenticated user to serveWriteLine")
	}
}

func c20Mux(c *core.Ctx, httpd *packages.Package) {
	fn := c.Need("C20.mux", "services/httpd", "ServeMux", "Handler")
	if fn != nil {
		r := an.ParamName(fn.Decl.Type, 0)
		eng := &an.Engine{Prog: c.P,
			TrackStore: func(lhs ast.Expr, key string) string {
				if sel, ok := ast.Unparen(lhs).(*ast.SelectorExpr); ok && sel.Sel.Name == "Path" {
					return "setpath"
				}
				return ""
			},
			Classify: func(a an.Atom) (string, bool) {
				switch {
				case a.Op == token.EQL && a.L == r+".Method" && a.R == `"CONNECT"`:
					return "connect", false
				case a.Op == token.EQL && ((a.L == "httpd.cleanPath("+r+".URL.Path)" && a.R == r+".URL.Path") || (a.R == "httpd.cleanPath("+r+".URL.Path)" && a.L == r+".URL.Path")):
					return "canonical", false
				}
				return "", false
			}}
		paths, err := eng.Run(fn)
		if err != nil {
			c.Undecided("C20.mux", "ServeMux.Handler", fn.Decl.Pos(), "%v", err)
		}
		an.CheckTable(c, "C20.mux", "ServeMux.Handler", paths, an.Table{Atoms: []string{"connect", "canonical"},
			Outcome: func(p *an.Path) string {
				if len(p.Rets) < 1 {
					return "?"
				}
				switch {
				case strings.HasPrefix(p.Rets[0], "http.RedirectHandler("):
					sp := p.Find("setpath")
					if sp != nil && sp.Args[0] == "httpd.cleanPath("+r+".URL.Path)" {
						return "redirect-to-clean"
					}
					return "redirect-elsewhere"
				case strings.Contains(p.Rets[0], ".handler(") && strings.Contains(p.Rets[0], r+".URL.Path)"):
					return "registered"
				}
				return p.Rets[0]
			},
			Expect: func(a map[string]bool) string {
				if !a["connect"] && !a["canonical"] {
					return "redirect-to-clean"
				}
				return "registered"
			}})
	}
	if fn := c.Need("C20.mux", "services/httpd", "Handler", "rewritePreview"); fn != nil {
		// after rewriting the path the request goes through ServeHTTP again (so through the mux and the wrappers)
		eng := &an.Engine{Prog: c.P,
			TrackCall: func(call *ast.CallExpr, callee *types.Func) string {
				if callee != nil && (callee.Name() == "ServeHTTP" || callee.Name() == "serve404") {
					return callee.Name()
				}
				if callee != nil && core.RecvTypeName(callee) != "" && callee.Pkg() == httpd.Types && callee.Name() != "ServeHTTP" {
					return "other:" + callee.Name()
				}
				return ""
			},
			TrackStore: func(lhs ast.Expr, key string) string {
				if sel, ok := ast.Unparen(lhs).(*ast.SelectorExpr); ok && sel.Sel.Name == "Path" {
					return "setpath"
				}
				return ""
			}}
		paths, err := eng.Run(fn)
		if err != nil {
			c.Undecided("C20.mux", "Handler.rewritePreview", fn.Decl.Pos(), "%v", err)
		}
		good := len(paths) > 0
		for _, p := range paths {
			if p.Has("setpath") {
				w := an.Seq(p, "setpath", "ServeHTTP")
				if w != "setpath,ServeHTTP" || p.Find("ServeHTTP").Recv != an.RecvVarName(fn.Decl) {
					good = false
					c.Fail("C20.mux", "Handler.rewritePreview", p.RetPos, "after rewriting the path the request must re-enter the handler's own ServeHTTP; path does [%s]", p.Word())
				}
			}
			for _, e := range p.Events {
				if strings.HasPrefix(e.Name, "other:") && e.Name != "other:serve404" {
					good = false
					c.Fail("C20.mux", "Handler.rewritePreview#direct", e.Pos, "rewritePreview dispatches to %s directly, bypassing the mux and its wrappers", e.Name)
				}
			}
		}
		if good {
			c.Ok("C20.mux", "Handler.rewritePreview")
		}
	}
}

var c20Injective = map[string]bool{"net/url.PathEscape": true, "net/url.QueryEscape": true, "strconv.Quote": true, "encoding/hex.EncodeToString": true, "path.Join": false}

func c20DBResource(c *core.Ctx, authp *packages.Package) {
	fn := c.Need("C20.dbresource", "auth", "", "DatabaseResource")
	if fn == nil {
		return
	}
	info := authp.TypesInfo
	// every call that transforms (a value derived from) the parameter must be injective
	par := info.Defs[fn.Decl.Type.Params.List[0].Names[0]]
	derived := map[types.Object]bool{par: true}
	mentions := func(x ast.Expr) bool {
		m := false
		ast.Inspect(x, func(n ast.Node) bool {
			if id, ok := n.(*ast.Ident); ok && derived[info.Uses[id]] {
				m = true
			}
			return true
		})
		return m
	}
	var lossy []string
	var lossyPos token.Pos
	ast.Inspect(fn.Decl.Body, func(n ast.Node) bool {
		switch s := n.(type) {
		case *ast.AssignStmt:
			for i, l := range s.Lhs {
				if id, ok := l.(*ast.Ident); ok && i < len(s.Rhs) && mentions(s.Rhs[i]) {
					obj := info.Defs[id]
					if obj == nil {
						obj = info.Uses[id]
					}
					derived[obj] = true
				}
			}
		case *ast.CallExpr:
			f := core.Callee(info, s)
			if f == nil || f.Pkg() == nil {
				return true
			}
			full := f.Pkg().Path() + "." + f.Name()
			arg0 := len(s.Args) > 0 && mentions(s.Args[0])
			if !arg0 {
				return true
			}
			switch full {
			case "strings.Replace", "strings.ReplaceAll", "strings.ToLower", "strings.ToUpper", "strings.TrimSpace", "strings.Trim", "strings.TrimPrefix", "strings.TrimSuffix", "strings.Map":
				lossy = append(lossy, full)
				lossyPos = s.Pos()
			}
		}
		return true
	})
	sort.Strings(lossy)
	if len(lossy) > 0 {
		c.Fail("C20.dbresource", "DatabaseResource#injective", lossyPos, "the database name passes through %v, which maps distinct names to one string (e.g. \"a/b_c\" and \"a_b/c\" both become a_b_c_dirty): a grant on one database authorises writes to the other", lossy)
	} else {
		c.Ok("C20.dbresource", "DatabaseResource#injective")
	}
}

var _ = regexp.MustCompile

func c20DBClean(c *core.Ctx, authp *packages.Package) {
	fn := c.Need("C20.dbclean", "auth", "", "DatabaseResource")
	if fn == nil {
		return
	}
	db := an.ParamName(fn.Decl.Type, 0)
	slashFree := func(k string) (string, bool, bool) { // (atom name, negated, recognised)
		k = strings.ReplaceAll(k, "'/'", `"/"`)
		switch {
		case k == `strings.Replace(`+db+`, "/", "_", -1) == `+db, k == db+` == strings.Replace(`+db+`, "/", "_", -1)`,
			k == `strings.ReplaceAll(`+db+`, "/", "_") == `+db, k == db+` == strings.ReplaceAll(`+db+`, "/", "_")`:
			return "hasSlash", true, true
		case k == `strings.Contains(`+db+`, "/")`, k == `strings.ContainsRune(`+db+`, "/")`, k == `strings.ContainsAny(`+db+`, "/")`:
			return "hasSlash", false, true
		}
		for _, f := range []string{"IndexByte", "Index", "IndexRune"} {
			call := `strings.` + f + `(` + db + `, "/")`
			switch k {
			case call + " < 0", call + " == -1":
				return "hasSlash", true, true
			case "-1 < " + call:
				return "hasSlash", false, true
			}
		}
		return "", false, false
	}
	eng := &an.Engine{Prog: c.P,
		Classify: func(a an.Atom) (string, bool) {
			if a.Op == token.EQL && a.L == db && a.R == `""` {
				return "empty", false
			}
			if n, neg, ok := slashFree(a.Key); ok {
				return n, neg
			}
			return "", false
		}}
	paths, err := eng.Run(fn)
	if err != nil {
		c.Undecided("C20.dbclean", "DatabaseResource", fn.Decl.Pos(), "%v", err)
		return
	}
	an.CheckTable(c, "C20.dbclean", "DatabaseResource", paths, an.Table{Atoms: []string{"empty", "hasSlash"},
		Outcome: func(p *an.Path) string {
			if len(p.Rets) != 1 {
				return "?"
			}
			r := strings.ReplaceAll(p.Rets[0], "'/'", `"/"`)
			repl := `strings.Replace(` + db + `, "/", "_", -1)`
			repl2 := `strings.ReplaceAll(` + db + `, "/", "_")`
			switch {
			case r == "auth.databaseRootResource":
				return "root"
			case strings.Contains(r, "auth.cleanSuffix") && !strings.Contains(r, "auth.dirtySuffix"):
				if strings.Contains(r, "("+db+" + auth.cleanSuffix)") || strings.Contains(r, "("+repl+" + auth.cleanSuffix)") || strings.Contains(r, "("+repl2+" + auth.cleanSuffix)") {
					return "clean"
				}
			case strings.Contains(r, "auth.dirtySuffix") && !strings.Contains(r, "auth.cleanSuffix"):
				if strings.Contains(r, "("+repl+" + auth.dirtySuffix)") || strings.Contains(r, "("+repl2+" + auth.dirtySuffix)") {
					return "dirty(replaced)"
				}
				return "dirty(not replaced)"
			}
			return r
		},
		Expect: func(a map[string]bool) string {
			switch {
			case a["empty"]:
				return "root"
			case a["hasSlash"]:
				return "dirty(replaced)"
			}
			return "clean"
		}})
}

// c20NewUser: F56. NewUser cleans every grant's resource; two spellings of one resource must add up (ps[clean] |= mask), not
// overwrite each other in map order.
func c20NewUser(c *core.Ctx, authp *packages.Package) {
	fn := c.Need("C20.newuser", "auth", "", "NewUser")
	if fn == nil {
		return
	}
	info := authp.TypesInfo
	n := 0
	ast.Inspect(fn.Decl.Body, func(nd ast.Node) bool {
		as, ok := nd.(*ast.AssignStmt)
		if !ok || len(as.Lhs) != 1 {
			return true
		}
		ix, ok := ast.Unparen(as.Lhs[0]).(*ast.IndexExpr)
		if !ok {
			return true
		}
		tv, ok := info.Types[ix.X]
		if !ok {
			return true
		}
		m, ok := tv.Type.Underlying().(*types.Map)
		if !ok {
			return true
		}
		if nn := core.NamedOf(m.Elem()); nn == nil || nn.Obj().Name() != "Privilege" {
			return true
		}
		// the key derives from path.Clean
		clean := false
		ast.Inspect(fn.Decl.Body, func(k ast.Node) bool {
			if call, ok := k.(*ast.CallExpr); ok {
				if f := core.Callee(info, call); f != nil && f.Pkg() != nil && f.Pkg().Path() == "path" && f.Name() == "Clean" {
					clean = true
				}
			}
			return true
		})
		n++
		c.Check(clean && as.Tok == token.OR_ASSIGN, "C20.newuser", "NewUser#merge", as.Pos(), "NewUser stores a grant under the cleaned resource with %s (key cleaned: %v): two keys that clean to the same path (/a and /a/) overwrite each other in map iteration order, so the same privilege table gives different decisions from one construction to the next; the masks must be merged with |=", as.Tok, clean)
		return true
	})
	c.Floor("C20.newuser", "stores into the privilege table in NewUser", n, 1)
}
