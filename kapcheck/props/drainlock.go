package props

import (
	"go/ast"
	"go/token"
	"go/types"
	"sort"

	"golang.org/x/tools/go/cfg"
	"golang.org/x/tools/go/packages"

	"kapcheck/core"
)

// c07DrainLock: F37. Draining a topic's handlers (Topics.DeleteTopic/Close/DeregisterHandler/ReplaceHandler, a handler's own
// Close — everything that reaches a WaitGroup.Wait for the handler goroutines) waits for those goroutines; a publish or aggregate
// handler's goroutine delivers through Service.Collect, which takes Service.mu. A Service method that drains while it may hold
// Service.mu therefore deadlocks with any event still queued for such a handler. May-hold dataflow over go/cfg.
func c07DrainLock(c *core.Ctx, lib, svc *packages.Package) {
	rule := "C07.drainlock"
	type fun struct {
		f   *core.Func
		pkg *packages.Package
	}
	byObj := map[*types.Func]fun{}
	for _, p := range []*packages.Package{lib, svc} {
		for _, f := range core.AllFuncs(p) {
			if o, ok := p.TypesInfo.Defs[f.Decl.Name].(*types.Func); ok {
				byObj[o] = fun{f, p}
			}
		}
	}
	isWGWait := func(info *types.Info, call *ast.CallExpr) bool {
		sel, ok := call.Fun.(*ast.SelectorExpr)
		if !ok || sel.Sel.Name != "Wait" {
			return false
		}
		s, ok := info.Selections[sel]
		if !ok {
			return false
		}
		n := core.NamedOf(s.Recv())
		return n != nil && n.Obj().Pkg() != nil && n.Obj().Pkg().Path() == "sync" && n.Obj().Name() == "WaitGroup"
	}
	// implementers of an interface method among the two packages' named types
	impls := func(m *types.Func) []*types.Func {
		var out []*types.Func
		sig, _ := m.Type().(*types.Signature)
		if sig == nil || sig.Recv() == nil {
			return nil
		}
		iface, _ := sig.Recv().Type().Underlying().(*types.Interface)
		if iface == nil {
			return nil
		}
		for o := range byObj {
			if o.Name() != m.Name() {
				continue
			}
			osig := o.Type().(*types.Signature)
			if osig.Recv() == nil {
				continue
			}
			if types.Implements(osig.Recv().Type(), iface) || types.Implements(types.NewPointer(osig.Recv().Type()), iface) {
				out = append(out, o)
			}
		}
		return out
	}
	callees := func(info *types.Info, call *ast.CallExpr) []*types.Func {
		m := core.Callee(info, call)
		if m == nil {
			return nil
		}
		if _, ok := byObj[m]; ok {
			return []*types.Func{m}
		}
		return impls(m)
	}
	// drainers: reach a WaitGroup.Wait through calls inside the two packages (function literals excluded: they run elsewhere)
	drains := map[*types.Func]bool{}
	calls := map[*types.Func][]*types.Func{}
	for o, fu := range byObj {
		info := fu.pkg.TypesInfo
		ast.Inspect(fu.f.Decl.Body, func(nd ast.Node) bool {
			switch x := nd.(type) {
			case *ast.FuncLit:
				return false
			case *ast.GoStmt:
				return false
			case *ast.CallExpr:
				if isWGWait(info, x) {
					drains[o] = true
				}
				calls[o] = append(calls[o], callees(info, x)...)
			}
			return true
		})
	}
	for changed := true; changed; {
		changed = false
		for o, cs := range calls {
			if drains[o] {
				continue
			}
			for _, m := range cs {
				if drains[m] {
					drains[o] = true
					changed = true
					break
				}
			}
		}
	}
	// the re-entry that closes the cycle: a handler's delivery reaches Service.Collect, which takes Service.mu
	info := svc.TypesInfo
	isMu := func(e ast.Expr) bool {
		sel, ok := ast.Unparen(e).(*ast.SelectorExpr)
		if !ok || sel.Sel.Name != "mu" {
			return false
		}
		s, ok := info.Selections[sel]
		if !ok || s.Kind() != types.FieldVal {
			return false
		}
		n := core.NamedOf(s.Recv())
		return n != nil && n.Obj().Name() == "Service" && n.Obj().Pkg() == svc.Types
	}
	lockOp := func(call *ast.CallExpr) string {
		sel, ok := call.Fun.(*ast.SelectorExpr)
		if !ok || !isMu(sel.X) {
			return ""
		}
		switch sel.Sel.Name {
		case "Lock", "RLock":
			return "+"
		case "Unlock", "RUnlock":
			return "-"
		}
		return ""
	}
	var collect *types.Func
	collectLocks := false
	for o, fu := range byObj {
		if fu.pkg == svc && o.Name() == "Collect" && core.RecvName(fu.f.Decl) == "Service" {
			collect = o
			ast.Inspect(fu.f.Decl.Body, func(nd ast.Node) bool {
				if call, ok := nd.(*ast.CallExpr); ok && lockOp(call) == "+" {
					collectLocks = true
				}
				return true
			})
		}
	}
	if collect == nil {
		c.Undecided(rule, "anchor:Service.Collect", token.NoPos, "method not found")
		return
	}
	reentrant := []string{}
	for o, fu := range byObj {
		if fu.pkg != svc || (o.Name() != "Handle" && o.Name() != "run") {
			continue
		}
		seen := map[*types.Func]bool{}
		var reach func(x *types.Func) bool
		reach = func(x *types.Func) bool {
			for _, y := range calls[x] {
				if y == collect {
					return true
				}
				if !seen[y] {
					seen[y] = true
					if reach(y) {
						return true
					}
				}
			}
			return false
		}
		if reach(o) {
			reentrant = append(reentrant, core.RecvName(fu.f.Decl)+"."+o.Name())
		}
	}
	sort.Strings(reentrant)
	c.Note("%s: handler goroutines that deliver through Service.Collect: %v; Service.Collect takes Service.mu: %v", rule, reentrant, collectLocks)
	if len(reentrant) == 0 || !collectLocks {
		c.Ok(rule, "Service#no-reentry", "no handler delivers through a Service method that takes Service.mu: draining under the lock cannot deadlock")
		return
	}
	n := 0
	for o, fu := range byObj {
		if fu.pkg != svc || core.RecvName(fu.f.Decl) != "Service" {
			continue
		}
		hasLock := false
		ast.Inspect(fu.f.Decl.Body, func(nd ast.Node) bool {
			if call, ok := nd.(*ast.CallExpr); ok && lockOp(call) == "+" {
				hasLock = true
			}
			return true
		})
		if !hasLock {
			continue
		}
		_ = o
		n++
		cons := "Service." + fu.f.Decl.Name.Name
		g := cfg.New(fu.f.Decl.Body, func(*ast.CallExpr) bool { return true })
		in := map[*cfg.Block]int{}
		for _, b := range g.Blocks {
			in[b] = -1
		}
		if len(g.Blocks) == 0 {
			continue
		}
		in[g.Blocks[0]] = 0
		type hit struct {
			what string
			pos  token.Pos
		}
		var hits []hit
		apply := func(b *cfg.Block, st int, report bool) int {
			for _, nd := range b.Nodes {
				if _, ok := nd.(*ast.DeferStmt); ok {
					continue
				}
				type ev struct {
					op, what string
					pos      token.Pos
				}
				var evs []ev
				ast.Inspect(nd, func(x ast.Node) bool {
					switch y := x.(type) {
					case *ast.FuncLit:
						return false
					case *ast.CallExpr:
						if op := lockOp(y); op != "" {
							evs = append(evs, ev{op, "", y.End()})
							return false
						}
						for _, m := range callees(info, y) {
							if drains[m] {
								// named by the method called (as declared), not by the expression: locals may be renamed
								what := types.ExprString(y.Fun)
								if d := core.Callee(info, y); d != nil {
									what = core.RecvTypeName(d) + "." + d.Name()
								}
								evs = append(evs, ev{"", what, y.Pos()})
								break
							}
						}
					}
					return true
				})
				sort.SliceStable(evs, func(i, j int) bool { return evs[i].pos < evs[j].pos })
				for _, e := range evs {
					switch e.op {
					case "+":
						st = 1
					case "-":
						st = 0
					default:
						if report && st == 1 {
							hits = append(hits, hit{e.what, e.pos})
						}
					}
				}
			}
			return st
		}
		work := []*cfg.Block{g.Blocks[0]}
		for steps := 0; len(work) > 0 && steps < 10000; steps++ {
			b := work[0]
			work = work[1:]
			out := apply(b, in[b], false)
			for _, s := range b.Succs {
				nv := out
				if in[s] > nv {
					nv = in[s]
				}
				if in[s] != nv {
					in[s] = nv
					work = append(work, s)
				}
			}
		}
		for _, b := range g.Blocks {
			if in[b] >= 0 {
				apply(b, in[b], true)
			}
		}
		seen := map[string]bool{}
		for _, h := range hits {
			if seen[h.what] {
				continue
			}
			seen[h.what] = true
			c.Fail(rule, cons+"#"+h.what, h.pos, "%s waits for the topic's handler goroutines to deliver what is queued while Service.mu may be held; %v deliver through Service.Collect, which takes Service.mu: with one event queued for such a handler both wait for good, and every later call into the alert service blocks behind the lock", h.what, reentrant)
		}
		if len(hits) == 0 {
			c.Ok(rule, cons)
		}
	}
	c.Floor(rule, "Service methods that take Service.mu", n, 8)
}

// c07DrainLockTopics: the same cycle one package down (F37b–e, second half). A publish handler delivers into another topic through
// Topics.Collect, which takes Topics.mu; a method of Topics that waits for handler goroutines (anything that reaches a
// WaitGroup.Wait: bufHandler.Close through Topic.close/removeHandler/replaceHandler) while it may hold Topics.mu therefore
// deadlocks with one event queued for such a handler. May-hold lock set over go/cfg.
func c07DrainLockTopics(c *core.Ctx, lib *packages.Package) {
	rule := "C07.drainlock"
	info := lib.TypesInfo
	byObj := map[*types.Func]*core.Func{}
	for _, f := range core.AllFuncs(lib) {
		if o, ok := info.Defs[f.Decl.Name].(*types.Func); ok {
			byObj[o] = f
		}
	}
	drains := map[*types.Func]bool{}
	calls := map[*types.Func][]*types.Func{}
	for o, f := range byObj {
		ast.Inspect(f.Decl.Body, func(nd ast.Node) bool {
			switch x := nd.(type) {
			case *ast.FuncLit, *ast.GoStmt:
				return false
			case *ast.CallExpr:
				if sel, ok := x.Fun.(*ast.SelectorExpr); ok && sel.Sel.Name == "Wait" {
					if s, ok := info.Selections[sel]; ok && core.TypeIs(s.Recv(), "sync", "WaitGroup") {
						drains[o] = true
					}
				}
				if m := core.Callee(info, x); m != nil && byObj[m] != nil {
					calls[o] = append(calls[o], m)
				}
			}
			return true
		})
	}
	for changed := true; changed; {
		changed = false
		for o, cs := range calls {
			if drains[o] {
				continue
			}
			for _, m := range cs {
				if drains[m] {
					drains[o] = true
					changed = true
					break
				}
			}
		}
	}
	// the re-entry: Topics.Collect takes Topics.mu
	reenters := false
	if fn := c.P.FindFunc("alert", "Topics", "Collect"); fn != nil {
		ast.Inspect(fn.Decl.Body, func(nd ast.Node) bool {
			if call, ok := nd.(*ast.CallExpr); ok {
				if f, op := mutexFieldOp(info, call, "Topics"); f != "" && op == "+" {
					reenters = true
				}
			}
			return true
		})
	}
	if !reenters {
		c.Ok(rule, "Topics#no-reentry", "Topics.Collect takes no lock of Topics: draining under it cannot deadlock")
		return
	}
	n := 0
	for _, o := range sortedFuncs(byObj) {
		f := byObj[o]
		if core.RecvName(f.Decl) != "Topics" {
			continue
		}
		at := mayHoldAtCalls(info, f.Decl.Body, "Topics", nil)
		var bad *ast.CallExpr
		what := ""
		for call, held := range at {
			if len(held) == 0 {
				continue
			}
			m := core.Callee(info, call)
			if m == nil || !drains[m] {
				continue
			}
			if bad == nil || call.Pos() < bad.Pos() {
				bad = call
				what = core.RecvTypeName(m) + "." + m.Name()
			}
		}
		takes := false
		ast.Inspect(f.Decl.Body, func(nd ast.Node) bool {
			if call, ok := nd.(*ast.CallExpr); ok {
				if fl, op := mutexFieldOp(info, call, "Topics"); fl != "" && op == "+" {
					takes = true
				}
			}
			return true
		})
		if !takes {
			continue
		}
		n++
		c.Analysed(f)
		cons := "Topics." + f.Decl.Name.Name
		if bad != nil {
			c.Fail(rule, cons+"#"+what, bad.Pos(), "%s waits for handler goroutines to deliver what is queued (%s reaches a WaitGroup.Wait) while Topics.mu may be held; a publish handler delivers into another topic through Topics.Collect, which takes Topics.mu: with one event queued for such a handler both wait for good, and nothing can be collected on any topic any more", cons, what)
		} else {
			c.Ok(rule, cons)
		}
	}
	c.Floor(rule, "Topics methods that take Topics.mu", n, 8)
}

func sortedFuncs(m map[*types.Func]*core.Func) []*types.Func {
	var out []*types.Func
	for o := range m {
		out = append(out, o)
	}
	sort.Slice(out, func(i, j int) bool { return out[i].Pos() < out[j].Pos() })
	return out
}
