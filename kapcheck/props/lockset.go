package props

import (
	"go/ast"
	"go/token"
	"go/types"
	"sort"

	"golang.org/x/tools/go/cfg"
	"golang.org/x/tools/go/packages"

	"kapcheck/core"
)

// holdSpec: the fields of one struct type that are only touched with the struct's mutex held.
type holdSpec struct {
	Typ    string          // struct type name
	Mu     string          // mutex field
	Fields map[string]bool // guarded fields
	Deref  map[string]bool // guarded fields whose elements, once read out, are still only used under the lock
	Why    string          // what goes wrong without the lock (for the report)
}

// ruleMustHold is a must-hold lock-set analysis (forward dataflow over go/cfg, meet = held on every incoming edge) for the
// methods of spec.Typ. A use is: a selection of a guarded field; a method call on, a range over or an index of a local that was
// read out of a guarded field (the fork edge taken from tm.forks is closed by the writer under the lock, so it is used under the
// lock too); a call of a helper method that itself requires the lock. A method without any lock operation that has an
// unguarded use is a helper: the obligation moves to all its call sites (fixpoint). Function literals are units of their own that
// start without the lock. Returns the number of uses examined.
func ruleMustHold(c *core.Ctx, rule string, pkg *packages.Package, spec holdSpec) int {
	info := pkg.TypesInfo
	type unit struct {
		name   string
		body   *ast.BlockStmt
		pos    token.Pos
		method *types.Func // nil for literals
		lockOp bool
	}
	var units []*unit
	for _, f := range core.AllFuncs(pkg) {
		name := spec.Typ + "." + f.Decl.Name.Name
		if core.RecvName(f.Decl) != spec.Typ {
			// a plain function or another type's method: its own body may build an unpublished object (constructor), but the
			// function literals in it run later, on a published one
			if f.Decl.Recv != nil {
				name = core.RecvName(f.Decl) + "." + f.Decl.Name.Name
			} else {
				name = f.Decl.Name.Name
			}
		} else {
			m, _ := info.Defs[f.Decl.Name].(*types.Func)
			units = append(units, &unit{name: name, body: f.Decl.Body, pos: f.Decl.Pos(), method: m})
		}
		k := 0
		ast.Inspect(f.Decl.Body, func(nd ast.Node) bool {
			if fl, ok := nd.(*ast.FuncLit); ok {
				k++
				units = append(units, &unit{name: name + "#func" + string(rune('0'+k)), body: fl.Body, pos: fl.Pos()})
			}
			return true
		})
	}
	isField := func(e ast.Expr, set map[string]bool) string {
		sel, ok := ast.Unparen(e).(*ast.SelectorExpr)
		if !ok {
			return ""
		}
		s, ok := info.Selections[sel]
		if !ok || s.Kind() != types.FieldVal {
			return ""
		}
		if n := core.NamedOf(s.Recv()); n == nil || n.Obj().Name() != spec.Typ || n.Obj().Pkg() != pkg.Types {
			return ""
		}
		if set[sel.Sel.Name] {
			return sel.Sel.Name
		}
		return ""
	}
	// lock operation of a call: "R+", "R-", "W+", "W-" or ""
	lockOp := func(call *ast.CallExpr) string {
		sel, ok := call.Fun.(*ast.SelectorExpr)
		if !ok || isField(sel.X, map[string]bool{spec.Mu: true}) == "" {
			return ""
		}
		switch sel.Sel.Name {
		case "RLock":
			return "R+"
		case "RUnlock":
			return "R-"
		case "Lock":
			return "W+"
		case "Unlock":
			return "W-"
		}
		return ""
	}
	containsGuardedIn := func(e ast.Node, set map[string]bool) bool {
		found := false
		ast.Inspect(e, func(nd ast.Node) bool {
			if _, ok := nd.(*ast.FuncLit); ok {
				return false
			}
			if x, ok := nd.(ast.Expr); ok && isField(x, set) != "" {
				found = true
			}
			return !found
		})
		return found
	}
	containsGuarded := func(e ast.Node) bool { return containsGuardedIn(e, spec.Fields) }
	needs := map[*types.Func]bool{} // helper methods that require the lock at entry
	type use struct {
		what string
		pos  token.Pos
	}
	analyse := func(u *unit) []use {
		// locals read out of guarded fields
		tainted := map[types.Object]bool{}
		refLike := func(o types.Object) bool {
			switch o.Type().Underlying().(type) {
			case *types.Pointer, *types.Map, *types.Slice, *types.Interface, *types.Chan:
				return true
			}
			return false
		}
		fromGuarded := func(e ast.Expr) bool {
			if containsGuardedIn(e, spec.Deref) {
				return true
			}
			t := false
			ast.Inspect(e, func(nd ast.Node) bool {
				if id, ok := nd.(*ast.Ident); ok && tainted[info.Uses[id]] {
					t = true
				}
				return !t
			})
			return t
		}
		for changed := true; changed; {
			changed = false
			mark := func(l ast.Expr) {
				id, ok := l.(*ast.Ident)
				if !ok {
					return
				}
				o := info.Defs[id]
				if o == nil {
					o = info.Uses[id]
				}
				if o != nil && !tainted[o] && refLike(o) {
					tainted[o] = true
					changed = true
				}
			}
			ast.Inspect(u.body, func(nd ast.Node) bool {
				switch x := nd.(type) {
				case *ast.FuncLit:
					return false
				case *ast.AssignStmt:
					if len(x.Rhs) == 1 && fromGuarded(x.Rhs[0]) {
						// only the value (first) result of a map read / call is a reference into the guarded state
						if _, isCall := ast.Unparen(x.Rhs[0]).(*ast.CallExpr); !isCall {
							mark(x.Lhs[0])
						}
					} else if len(x.Rhs) == len(x.Lhs) {
						for i := range x.Rhs {
							if _, isCall := ast.Unparen(x.Rhs[i]).(*ast.CallExpr); !isCall && fromGuarded(x.Rhs[i]) {
								mark(x.Lhs[i])
							}
						}
					}
				case *ast.RangeStmt:
					if fromGuarded(x.X) {
						if x.Value != nil {
							mark(x.Value)
						}
					}
				}
				return true
			})
		}
		// events of one cfg node in source order
		type ev struct {
			op   string // lock op or ""
			what string // use description
			pos  token.Pos
		}
		events := func(nd ast.Node) []ev {
			var out []ev
			if _, ok := nd.(*ast.DeferStmt); ok {
				return nil // runs at exit
			}
			if g, ok := nd.(*ast.GoStmt); ok {
				// the arguments are evaluated here, the call runs elsewhere
				var out []ev
				for _, a := range g.Call.Args {
					if containsGuarded(a) {
						out = append(out, ev{what: "a guarded field as go argument", pos: a.Pos()})
					}
				}
				return out
			}
			ast.Inspect(nd, func(n ast.Node) bool {
				switch x := n.(type) {
				case *ast.FuncLit:
					return false
				case *ast.CallExpr:
					if op := lockOp(x); op != "" {
						out = append(out, ev{op: op, pos: x.End()})
						return false
					}
					if sel, ok := x.Fun.(*ast.SelectorExpr); ok {
						if s, ok := info.Selections[sel]; ok && s.Kind() == types.MethodVal {
							if m, ok := s.Obj().(*types.Func); ok && needs[m] {
								out = append(out, ev{what: "call of " + m.Name() + " (which needs " + spec.Mu + " held)", pos: x.Pos()})
							}
							if id, ok := ast.Unparen(sel.X).(*ast.Ident); ok && tainted[info.Uses[id]] {
								out = append(out, ev{what: id.Name + "." + sel.Sel.Name + " on a value read from a guarded field", pos: x.Pos()})
							}
						}
					}
				case *ast.SelectorExpr:
					if f := isField(x, spec.Fields); f != "" {
						out = append(out, ev{what: "field " + f, pos: x.Pos()})
					}
				case *ast.RangeStmt:
					// go/cfg hands the range statement's parts separately; nothing here
				case *ast.IndexExpr:
					if id, ok := ast.Unparen(x.X).(*ast.Ident); ok && tainted[info.Uses[id]] {
						out = append(out, ev{what: "index of " + id.Name + ", read from a guarded field", pos: x.Pos()})
					}
				}
				return true
			})
			sort.SliceStable(out, func(i, j int) bool { return out[i].pos < out[j].pos })
			return out
		}
		g := cfg.New(u.body, func(*ast.CallExpr) bool { return true })
		// state: 0 not held, 1 held
		entry := 0
		if u.method != nil && needs[u.method] {
			entry = 1
		}
		in := map[*cfg.Block]int{}
		seen := map[*cfg.Block]bool{}
		for _, b := range g.Blocks {
			in[b] = -1 // unreached
		}
		if len(g.Blocks) == 0 {
			return nil
		}
		in[g.Blocks[0]] = entry
		var uses []use
		apply := func(b *cfg.Block, st int, report bool) int {
			for _, nd := range b.Nodes {
				// a range statement's X appears as a node; ranging over a tainted local is a use
				for _, e := range events(nd) {
					switch e.op {
					case "R+", "W+":
						st = 1
					case "R-", "W-":
						st = 0
					default:
						if report && st == 0 {
							uses = append(uses, use{e.what, e.pos})
						}
					}
				}
			}
			return st
		}
		work := []*cfg.Block{g.Blocks[0]}
		for len(work) > 0 {
			b := work[0]
			work = work[1:]
			seen[b] = true
			out := apply(b, in[b], false)
			for _, s := range b.Succs {
				nv := out
				if in[s] != -1 && in[s] != out {
					nv = 0 // held on one edge only: not held for sure
				}
				if in[s] != nv {
					in[s] = nv
					work = append(work, s)
				} else if !seen[s] {
					work = append(work, s)
				}
			}
		}
		for _, b := range g.Blocks {
			if in[b] >= 0 {
				apply(b, in[b], true)
			}
		}
		return uses
	}
	for _, u := range units {
		ast.Inspect(u.body, func(nd ast.Node) bool {
			if _, ok := nd.(*ast.FuncLit); ok {
				return false
			}
			if call, ok := nd.(*ast.CallExpr); ok && lockOp(call) != "" {
				u.lockOp = true
			}
			return true
		})
	}
	// fixpoint over the helpers
	for round := 0; round < 10; round++ {
		changed := false
		for _, u := range units {
			if u.method == nil || u.lockOp || needs[u.method] || u.method.Exported() {
				continue // an exported method is an entry point: it takes the lock itself
			}
			if len(analyse(u)) > 0 {
				needs[u.method] = true
				changed = true
			}
		}
		if !changed {
			break
		}
	}
	n := 0
	var helpers []string
	for _, u := range units {
		uses := analyse(u)
		if u.method != nil && needs[u.method] {
			helpers = append(helpers, u.name)
		}
		total := 0
		ast.Inspect(u.body, func(nd ast.Node) bool {
			if _, ok := nd.(*ast.FuncLit); ok {
				return false
			}
			if x, ok := nd.(ast.Expr); ok && isField(x, spec.Fields) != "" {
				total++
			}
			return true
		})
		n += total
		if total == 0 && len(uses) == 0 {
			continue
		}
		c.AnalysedName(u.name)
		seenWhat := map[string]bool{}
		for _, x := range uses {
			if seenWhat[x.what] {
				continue
			}
			seenWhat[x.what] = true
			c.Fail(rule, u.name+"#unguarded:"+x.what, x.pos, "%s is used while %s.%s is not held on every path reaching this point: %s", x.what, spec.Typ, spec.Mu, spec.Why)
		}
		if len(uses) == 0 {
			c.Ok(rule, u.name)
		}
	}
	sort.Strings(helpers)
	c.Note("%s: helpers that rely on their callers holding the lock (every call site checked): %v", rule, helpers)
	return n
}
