package props

import (
	"fmt"
	"go/ast"
	"go/constant"
	"go/token"
	"go/types"
	"sort"
	"strconv"
	"strings"

	"golang.org/x/tools/go/cfg"
	"golang.org/x/tools/go/packages"

	"kapcheck/an"
	"kapcheck/core"
)

// Rules added after the fourth round of seeded changes. Each states a necessary condition of its property that the earlier
// rules did not look at, mostly in a package next to the anchored one.

// c02ForkOwner (seed C02-10-r4): a fork registered from outside the task master (the replay service's stream recording) must
// not carry the name of a task: newFork keys the per-key maps by that name, so the running task's edge under every key would
// be replaced and DelFork would remove the task's own subscription. The name is followed back through the parameters of the
// calling package; an origin that is the ID field of a kapacitor.Task is refused.
func c02ForkOwner(c *core.Ctx) {
	c.Rule("C02.forkowner", "A6 (who-may-call + provenance): a fork that another package registers with TaskMaster.NewFork is not named by the ID of a task (followed back through the parameters of the calling package), and the same expression names it for DelFork")
	sp := c.P.Pkg("services/replay")
	if sp == nil {
		c.Note("C02.forkowner: services/replay is not loaded in this run")
		return
	}
	info := sp.TypesInfo
	funcs := map[*types.Func]*core.Func{}
	for _, f := range core.AllFuncs(sp) {
		if o, ok := info.Defs[f.Decl.Name].(*types.Func); ok {
			funcs[o] = f
		}
	}
	isTaskID := func(e ast.Expr) bool {
		sel, ok := ast.Unparen(e).(*ast.SelectorExpr)
		if !ok || sel.Sel.Name != "ID" {
			return false
		}
		t := info.TypeOf(sel.X)
		if pt, ok := t.(*types.Pointer); ok {
			t = pt.Elem()
		}
		nt := core.NamedOf(t)
		return nt != nil && nt.Obj().Name() == "Task" && nt.Obj().Pkg() != nil && nt.Obj().Pkg().Path() == core.Module
	}
	// origins of an expression: follow parameters to the call sites inside the package (depth 3)
	var origins func(f *core.Func, e ast.Expr, depth int) []ast.Expr
	origins = func(f *core.Func, e ast.Expr, depth int) []ast.Expr {
		id, ok := ast.Unparen(e).(*ast.Ident)
		if !ok || depth == 0 {
			return []ast.Expr{e}
		}
		obj := info.Uses[id]
		fo, _ := info.Defs[f.Decl.Name].(*types.Func)
		if fo == nil {
			return []ast.Expr{e}
		}
		sig := fo.Type().(*types.Signature)
		idx := -1
		for i := 0; i < sig.Params().Len(); i++ {
			if sig.Params().At(i) == obj {
				idx = i
			}
		}
		if idx < 0 {
			return []ast.Expr{e}
		}
		var out []ast.Expr
		for _, g := range funcs {
			ast.Inspect(g.Decl.Body, func(n ast.Node) bool {
				if call, ok := n.(*ast.CallExpr); ok && core.Callee(info, call) == fo && idx < len(call.Args) {
					out = append(out, origins(g, call.Args[idx], depth-1)...)
				}
				return true
			})
		}
		if len(out) == 0 {
			return []ast.Expr{e}
		}
		return out
	}
	n := 0
	for _, f := range funcs {
		var newName, delName string
		var newCall *ast.CallExpr
		ast.Inspect(f.Decl.Body, func(nd ast.Node) bool {
			call, ok := nd.(*ast.CallExpr)
			if !ok || len(call.Args) < 1 {
				return true
			}
			sel, ok := call.Fun.(*ast.SelectorExpr)
			if !ok {
				return true
			}
			switch sel.Sel.Name {
			case "NewFork":
				if len(call.Args) == 3 {
					newName, newCall = types.ExprString(call.Args[0]), call
				}
			case "DelFork":
				if len(call.Args) == 1 {
					delName = types.ExprString(call.Args[0])
				}
			}
			return true
		})
		if newCall == nil {
			continue
		}
		n++
		c.Analysed(f)
		name := f.Decl.Name.Name
		if r := core.RecvName(f.Decl); r != "" {
			name = r + "." + name
		}
		bad := ""
		for _, o := range origins(f, newCall.Args[0], 3) {
			if isTaskID(o) {
				bad = types.ExprString(o)
			}
		}
		c.Check(bad == "", "C02.forkowner", name+"#name", newCall.Pos(), "%s registers a fork whose name comes from %s, the ID of a task: TaskMaster.newFork keys the edge maps by that name — while the recording runs the enabled task of that ID has lost its edge under every key and receives nothing, and DelFork then removes the task's own subscription for good", name, bad)
		c.Check(delName == "" || delName == newName, "C02.forkowner", name+"#same-name", newCall.Pos(), "%s registers the fork as %s but removes %s: the fork that was registered stays subscribed, another one is removed", name, newName, delName)
	}
	c.Floor("C02.forkowner", "forks registered from services/replay", n, 1)
}

// c02ReadBuf (seed C02-11-r4): an ingestion loop that reads into one buffer again and again must hand each datagram on as a
// copy: the parsed points alias the bytes they were parsed from, and the next read overwrites them while they are still being
// written to the tasks.
func c02ReadBuf(c *core.Ctx) {
	c.Rule("C02.readbuf", "A9 (ownership): in a loop that reads into a buffer declared outside the loop (ReadFromUDP, Read), nothing rooted in that buffer is sent on a channel, stored or appended — what leaves the loop is a copy made in the same iteration")
	sp := c.P.Pkg("services/udp")
	if sp == nil {
		c.Note("C02.readbuf: services/udp is not loaded in this run")
		return
	}
	info := sp.TypesInfo
	n := 0
	for _, f := range core.AllFuncs(sp) {
		ast.Inspect(f.Decl.Body, func(nd ast.Node) bool {
			loop, ok := nd.(*ast.ForStmt)
			if !ok {
				return true
			}
			// buffers read into inside the loop, declared outside it
			bufs := map[types.Object]bool{}
			ast.Inspect(loop.Body, func(m ast.Node) bool {
				call, ok := m.(*ast.CallExpr)
				if !ok || len(call.Args) < 1 {
					return true
				}
				cal := core.Callee(info, call)
				if cal == nil || !strings.HasPrefix(cal.Name(), "Read") {
					return true
				}
				if id, ok := ast.Unparen(call.Args[0]).(*ast.Ident); ok {
					if o := info.Uses[id]; o != nil && !(o.Pos() >= loop.Body.Pos() && o.Pos() <= loop.Body.End()) {
						bufs[o] = true
					}
				}
				return true
			})
			if len(bufs) == 0 {
				return true
			}
			n++
			c.Analysed(f)
			name := f.Decl.Name.Name
			if r := core.RecvName(f.Decl); r != "" {
				name = r + "." + name
			}
			rooted := func(e ast.Expr) bool {
				for {
					e = ast.Unparen(e)
					switch x := e.(type) {
					case *ast.SliceExpr:
						e = x.X
						continue
					case *ast.Ident:
						return bufs[info.Uses[x]]
					}
					return false
				}
			}
			bad := token.NoPos
			what := ""
			ast.Inspect(loop.Body, func(m ast.Node) bool {
				switch x := m.(type) {
				case *ast.SendStmt:
					if rooted(x.Value) {
						bad, what = x.Pos(), "sent on "+types.ExprString(x.Chan)
					}
				case *ast.AssignStmt:
					for i, r := range x.Rhs {
						if !rooted(r) || i >= len(x.Lhs) {
							continue
						}
						// assigning a sub-slice to a local is fine; storing it into a field or element is an escape
						if _, isLocal := ast.Unparen(x.Lhs[i]).(*ast.Ident); !isLocal {
							bad, what = x.Pos(), "stored into "+types.ExprString(x.Lhs[i])
						}
					}
				case *ast.CallExpr:
					if core.IsBuiltin(info, x, "append") {
						for _, a := range x.Args[1:] {
							if rooted(a) && x.Ellipsis == token.NoPos {
								bad, what = x.Pos(), "appended to "+types.ExprString(x.Args[0])
							}
						}
					}
				}
				return true
			})
			c.Check(bad == token.NoPos, "C02.readbuf", name+"#copy", bad, "%s reads every datagram into the same buffer and a slice of that buffer is %s: the points parsed from it alias its bytes, the next read overwrites them while the previous datagram is still being written to the tasks — a point is delivered with the next datagram's measurement and fields, one point is lost and one duplicated", name, what)
			return false
		})
	}
	c.Floor("C02.readbuf", "read loops over a reused buffer in services/udp", n, 1)
}

// c06RowIndex (seed C06-11-r4): HTTPOutNode keeps one result row per group and every group remembers its row number.
// Removing a group renumbers exactly the groups behind it: in the loop that rewrites the numbers, the first element visited is
// idx+1 when the loop runs before the removal and idx when it runs after.
func c06RowIndex(c *core.Ctx, root *packages.Package) {
	c.Rule("C06.rowindex", "A4: HTTPOutNode.deleteGroup renumbers every group behind the removed one: the renumbering loop starts at idx+1 before the removal from n.indexes and at idx after it (a group that keeps its old number writes into another group's row)")
	info := root.TypesInfo
	fn := c.Need("C06.rowindex", "", "HTTPOutNode", "deleteGroup")
	if fn == nil {
		return
	}
	c.Analysed(fn)
	idx := an.ParamName(fn.Decl.Type, 0)
	// the removal: n.indexes = append(n.indexes[..idx], n.indexes[idx+1..]...)
	removal := token.NoPos
	ast.Inspect(fn.Decl.Body, func(n ast.Node) bool {
		as, ok := n.(*ast.AssignStmt)
		if ok && len(as.Lhs) == 1 && an.FieldSel(info, as.Lhs[0], "HTTPOutNode", "indexes") {
			removal = as.Pos()
		}
		return true
	})
	if removal == token.NoPos {
		c.Undecided("C06.rowindex", "HTTPOutNode.deleteGroup", fn.Decl.Pos(), "the removal from n.indexes was not found")
		return
	}
	found, good, why := false, false, ""
	check := func(pos token.Pos, low string) {
		found = true
		low = strings.ReplaceAll(low, " ", "")
		want := idx + "+1"
		if pos > removal {
			want = idx
		}
		if low == want {
			good = true
		} else {
			why = "the loop starts at " + low + ", the first group that moved is at " + want
		}
	}
	writesIdx := func(body *ast.BlockStmt) bool {
		w := false
		ast.Inspect(body, func(m ast.Node) bool {
			switch x := m.(type) {
			case *ast.IncDecStmt:
				if sel, ok := ast.Unparen(x.X).(*ast.SelectorExpr); ok && sel.Sel.Name == "idx" {
					w = true
				}
			case *ast.AssignStmt:
				for _, l := range x.Lhs {
					if sel, ok := ast.Unparen(l).(*ast.SelectorExpr); ok && sel.Sel.Name == "idx" {
						w = true
					}
				}
			}
			return true
		})
		return w
	}
	ast.Inspect(fn.Decl.Body, func(n ast.Node) bool {
		switch x := n.(type) {
		case *ast.RangeStmt:
			if !writesIdx(x.Body) {
				return true
			}
			if sl, ok := ast.Unparen(x.X).(*ast.SliceExpr); ok && an.FieldSel(info, sl.X, "HTTPOutNode", "indexes") && sl.Low != nil {
				check(x.Pos(), types.ExprString(sl.Low))
			}
		case *ast.ForStmt:
			if !writesIdx(x.Body) {
				return true
			}
			if as, ok := x.Init.(*ast.AssignStmt); ok && len(as.Rhs) == 1 {
				check(x.Pos(), types.ExprString(as.Rhs[0]))
			}
		}
		return true
	})
	// what the loop writes: the old number minus one, or the element's position — start of the loop plus the loop index (minus
	// one before the removal), compared as linear forms over the parameter and the loop index (seed C06-14-r5)
	ast.Inspect(fn.Decl.Body, func(n ast.Node) bool {
		rs, ok := n.(*ast.RangeStmt)
		if !ok || !writesIdx(rs.Body) {
			return true
		}
		sl, ok := ast.Unparen(rs.X).(*ast.SliceExpr)
		if !ok || sl.Low == nil {
			return true
		}
		var keyObj types.Object
		if id, ok := rs.Key.(*ast.Ident); ok && rs.Key != nil {
			keyObj = info.Defs[id]
		}
		var lin func(e ast.Expr) map[string]int64
		lin = func(e ast.Expr) map[string]int64 {
			e = ast.Unparen(e)
			if tv, ok := info.Types[e]; ok && tv.Value != nil {
				if v, exact := constant.Int64Val(constant.ToInt(tv.Value)); exact {
					return map[string]int64{"1": v}
				}
				return nil
			}
			if id, ok := e.(*ast.Ident); ok {
				switch {
				case id.Name == idx:
					return map[string]int64{"idx": 1}
				case keyObj != nil && info.Uses[id] == keyObj:
					return map[string]int64{"i": 1}
				}
				return nil
			}
			if b, ok := e.(*ast.BinaryExpr); ok && (b.Op == token.ADD || b.Op == token.SUB) {
				l, r := lin(b.X), lin(b.Y)
				if l == nil || r == nil {
					return nil
				}
				o := map[string]int64{}
				for k, v := range l {
					o[k] += v
				}
				for k, v := range r {
					if b.Op == token.ADD {
						o[k] += v
					} else {
						o[k] -= v
					}
				}
				return o
			}
			return nil
		}
		ast.Inspect(rs.Body, func(m ast.Node) bool {
			as, ok := m.(*ast.AssignStmt)
			if !ok || len(as.Lhs) != 1 || len(as.Rhs) != 1 {
				return true
			}
			if sel, ok := ast.Unparen(as.Lhs[0]).(*ast.SelectorExpr); !ok || sel.Sel.Name != "idx" {
				return true
			}
			want := lin(sl.Low)
			if want != nil {
				want["i"]++
				if rs.Pos() < removal {
					want["1"]--
				}
			}
			got := lin(as.Rhs[0])
			if as.Tok != token.ASSIGN {
				got = nil
			}
			eq := got != nil && want != nil
			if eq {
				for k, v := range got {
					if want[k] != v {
						eq = false
					}
				}
				for k, v := range want {
					if got[k] != v {
						eq = false
					}
				}
			}
			if !eq {
				good = false
				found = true
				why = "the loop stores " + types.ExprString(as.Rhs[0]) + " as a group's row number, which is not its position " + types.ExprString(sl.Low) + " + the loop index: every group behind a deleted one that was not the first is renumbered from 0 and overwrites the rows of earlier groups"
				c.Fail("C06.rowindex", "HTTPOutNode.deleteGroup#renumber-value", as.Pos(), "%s", why)
			}
			return true
		})
		return true
	})
	if !found {
		c.Fail("C06.rowindex", "HTTPOutNode.deleteGroup#renumber", fn.Decl.Pos(), "deleteGroup removes a group's row without renumbering the groups behind it: they keep writing into the row of the group after them")
		return
	}
	c.Check(good, "C06.rowindex", "HTTPOutNode.deleteGroup#renumber", fn.Decl.Pos(), "deleteGroup does not renumber every group behind the removed one (%s): after a group was deleted (barrier().delete(TRUE)), the group that moved into its slot keeps its old row number and writes into the row of the group behind it — what the task shows for one group then depends on another group having existed", why)
}

// c08RestoreID (seed C08-10-r4): the ID under which NewGroup looks up the persisted state of a group is rendered from the same
// three values as the ID of the events the group sends (the message's own name, group ID and tags): an ID template may refer
// to any tag of the point, not only to the dimensions of the group.
func c08RestoreID(c *core.Ctx, root *packages.Package) {
	c.Rule("C08.restoreid", "A3 (sibling agreement): AlertNode.NewGroup renders the ID it restores the persisted state under from the first message's own Name(), GroupID() and Tags() — the same accessors alertState.Point and BufferedBatch render the event ID from — so that the restored ID is the ID of the group's events for every ID template")
	info := root.TypesInfo
	roles := func(fn *core.Func) [][3]string {
		var out [][3]string
		ast.Inspect(fn.Decl.Body, func(n ast.Node) bool {
			call, ok := n.(*ast.CallExpr)
			if !ok || len(call.Args) != 3 {
				return true
			}
			if cal := core.Callee(info, call); cal == nil || cal.Name() != "renderID" {
				return true
			}
			var r [3]string
			for i, a := range call.Args {
				// the accessor called, without its receiver
				if ce, ok := ast.Unparen(a).(*ast.CallExpr); ok {
					if sel, ok := ce.Fun.(*ast.SelectorExpr); ok {
						r[i] = sel.Sel.Name + "()"
						continue
					}
				}
				r[i] = types.ExprString(a)
			}
			out = append(out, r)
			return true
		})
		return out
	}
	ng := c.Need("C08.restoreid", "", "AlertNode", "NewGroup")
	if ng == nil {
		return
	}
	c.Analysed(ng)
	want := [3]string{"Name()", "GroupID()", "Tags()"}
	got := roles(ng)
	if len(got) == 0 {
		c.Undecided("C08.restoreid", "AlertNode.NewGroup", ng.Decl.Pos(), "no renderID call found")
		return
	}
	for _, r := range got {
		c.Check(r == want, "C08.restoreid", "AlertNode.NewGroup#renderID", ng.Decl.Pos(), "NewGroup renders the ID it restores the group's persisted state under from (%s, %s, %s) instead of the first message's own Name(), GroupID(), Tags(): the events of the group are identified by an ID rendered from the point's own tags — an ID template that names a tag outside the group-by dimensions renders to another ID here, nothing is found in the store, the alert resumes at OK although CRITICAL is persisted, and the recovery is never reported", r[0], r[1], r[2])
	}
}

// c15BucketPath (seed C08-12-r4): Bolt.Bucket builds a child handle by appending to the parent's path. Two children of one
// parent share the appended element unless the parent's path has no spare capacity; the paths a handle is created with must
// therefore be exact: NewBolt is given its buckets one by one, or a spread slice that is a literal or was made without extra
// capacity.
func c15BucketPath(c *core.Ctx, rule string) {
	c.Rule(rule, "A9 (ownership): while Bolt.Bucket appends to the parent handle's path, every path a handle is created with has no spare capacity (NewBolt gets its buckets as separate arguments, or a spread slice that is a composite literal or made with length only): otherwise two bucket handles taken from one store share the last path element, and a reader retargets a writer's transaction to another bucket")
	sp := c.P.Pkg("services/storage")
	if sp == nil {
		c.Note(rule + ": services/storage is not loaded in this run")
		return
	}
	info := sp.TypesInfo
	bucket := c.P.FindFunc("services/storage", "Bolt", "Bucket")
	if bucket == nil {
		c.Undecided(rule, "anchor:Bolt.Bucket", token.NoPos, "method not found")
		return
	}
	appends := false
	ast.Inspect(bucket.Decl.Body, func(n ast.Node) bool {
		if call, ok := n.(*ast.CallExpr); ok && core.IsBuiltin(info, call, "append") && len(call.Args) >= 1 && an.FieldSel(info, call.Args[0], "Bolt", "bucket") {
			appends = true
		}
		return true
	})
	if !appends {
		c.Ok(rule, "Bolt.Bucket#fresh", "Bolt.Bucket does not append to the parent's path")
		return
	}
	n := 0
	for _, pkg := range c.P.ModPkgs {
		pinfo := pkg.TypesInfo
		for _, f := range core.AllFuncs(pkg) {
			ast.Inspect(f.Decl.Body, func(nd ast.Node) bool {
				call, ok := nd.(*ast.CallExpr)
				if !ok {
					return true
				}
				cal := core.Callee(pinfo, call)
				if cal == nil || cal.Name() != "NewBolt" || cal.Pkg() == nil || !strings.HasSuffix(cal.Pkg().Path(), "services/storage") {
					return true
				}
				n++
				c.Analysed(f)
				name := f.Decl.Name.Name
				if r := core.RecvName(f.Decl); r != "" {
					name = r + "." + name
				}
				if call.Ellipsis == token.NoPos {
					c.Ok(rule, name+"#NewBolt")
					return true
				}
				// the spread slice
				arg := ast.Unparen(call.Args[len(call.Args)-1])
				exact, why := false, types.ExprString(arg)
				var def ast.Expr = arg
				if id, ok := arg.(*ast.Ident); ok {
					obj := pinfo.Uses[id]
					ast.Inspect(f.Decl.Body, func(m ast.Node) bool {
						if as, ok := m.(*ast.AssignStmt); ok {
							for i, l := range as.Lhs {
								if lid, ok := l.(*ast.Ident); ok && (pinfo.Defs[lid] == obj || pinfo.Uses[lid] == obj) && i < len(as.Rhs) {
									def = ast.Unparen(as.Rhs[i])
								}
							}
						}
						return true
					})
				}
				switch x := def.(type) {
				case *ast.CompositeLit:
					exact = true
				case *ast.CallExpr:
					if core.IsBuiltin(pinfo, x, "make") {
						switch len(x.Args) {
						case 2:
							exact = true
						case 3:
							l, lok := pinfo.Types[x.Args[1]]
							cp, cok := pinfo.Types[x.Args[2]]
							if lok && cok && l.Value != nil && cp.Value != nil && constant.Compare(l.Value, token.EQL, cp.Value) {
								exact = true
							} else {
								why = types.ExprString(x) + " (capacity beyond the length)"
							}
						}
					}
				}
				c.Check(exact, rule, name+"#NewBolt", call.Pos(), "%s creates a Bolt handle from the spread slice %s, which may have spare capacity: Bolt.Bucket appends to the parent's path, so every bucket handle taken from this store writes its bucket name into the same array element — a restoreTopic of topic B between a writer's tx.Bucket(\"A\") and its Put commits A's event state into B's bucket (atomically)", name, why)
				return true
			})
		}
	}
	// the packages loaded for C08 hold one of the two call sites
	minSites := 2
	if rule != "C15.bucketpath" {
		minSites = 1
	}
	c.Floor(rule, "NewBolt call sites", n, minSites)
	// the same inside the package: what is stored in Bolt.bucket is the caller's slice itself (decided at the call sites above),
	// nil, the append to the parent's path, or a slice made without spare capacity — never a local copy with room to grow
	m := 0
	for _, f := range core.AllFuncs(sp) {
		var variadic types.Object
		if pl := f.Decl.Type.Params; pl != nil && len(pl.List) > 0 {
			last := pl.List[len(pl.List)-1]
			if _, ok := last.Type.(*ast.Ellipsis); ok && len(last.Names) == 1 {
				variadic = info.Defs[last.Names[0]]
			}
		}
		name := f.Decl.Name.Name
		if r := core.RecvName(f.Decl); r != "" {
			name = r + "." + name
		}
		k := 0
		ast.Inspect(f.Decl.Body, func(nd ast.Node) bool {
			var val ast.Expr
			switch x := nd.(type) {
			case *ast.CompositeLit:
				if !core.TypeIs(info.TypeOf(x), core.ModPath("services/storage"), "Bolt") {
					return true
				}
				for _, el := range x.Elts {
					if kv, ok := el.(*ast.KeyValueExpr); ok {
						if id, ok := kv.Key.(*ast.Ident); ok && id.Name == "bucket" {
							val = kv.Value
						}
					}
				}
			case *ast.AssignStmt:
				for i, l := range x.Lhs {
					if an.FieldSel(info, l, "Bolt", "bucket") && i < len(x.Rhs) {
						val = x.Rhs[i]
					}
				}
			}
			if val == nil {
				return true
			}
			m++
			k++
			construct := fmt.Sprintf("%s#bucket-store%d", name, k)
			def := ast.Unparen(val)
			if id, ok := def.(*ast.Ident); ok && id.Name != "nil" {
				obj := info.Uses[id]
				if obj != nil && obj == variadic {
					c.Ok(rule, construct, "the caller's arguments")
					return true
				}
				ast.Inspect(f.Decl.Body, func(mm ast.Node) bool {
					if as, ok := mm.(*ast.AssignStmt); ok {
						for i, l := range as.Lhs {
							if lid, ok := l.(*ast.Ident); ok && (info.Defs[lid] == obj || info.Uses[lid] == obj) && i < len(as.Rhs) {
								def = ast.Unparen(as.Rhs[i])
							}
						}
					}
					return true
				})
			}
			exact, why := false, types.ExprString(def)
			switch x := def.(type) {
			case *ast.Ident:
				exact = x.Name == "nil"
			case *ast.CompositeLit:
				exact = true
			case *ast.CallExpr:
				switch {
				case core.IsBuiltin(info, x, "append") && len(x.Args) == 2 && x.Ellipsis == token.NoPos && an.FieldSel(info, x.Args[0], "Bolt", "bucket"):
					exact = true // the parent's path plus one element: the case the whole rule is about
				case core.IsBuiltin(info, x, "make") && len(x.Args) == 2:
					exact = true
				case core.IsBuiltin(info, x, "make") && len(x.Args) == 3:
					l, lok := info.Types[x.Args[1]]
					cp, cok := info.Types[x.Args[2]]
					if lok && cok && l.Value != nil && cp.Value != nil && constant.Compare(l.Value, token.EQL, cp.Value) {
						exact = true
					} else if types.ExprString(x.Args[1]) == types.ExprString(x.Args[2]) {
						exact = true
					} else {
						why += " (capacity beyond the length)"
					}
				}
			}
			c.Check(exact, rule, construct, val.Pos(), "%s stores %s as a handle's bucket path: a path with spare capacity makes every Bolt.Bucket(x) of that handle write x into the same array element — two handles taken from one store (a reader's RestoreTopic(B) between a writer's tx.Bucket(A) and its Put) then name the same bucket", name, why)
			return true
		})
	}
	c.Floor(rule, "stores into Bolt.bucket", m, 4)
}

// c14Rules4 (seeds C14-11-r4, C14-12-r4).
func c14Rules4(c *core.Ctx, sp *packages.Package) {
	info := sp.TypesInfo
	c.Rule("C14.rollbackcopy", "A9 (ownership): what updateAllAssociatedTasks saves for the rollback (oldDBRPs[id] = task.DBRPs) is not the backing array the new definition is then written into: the next value of task.DBRPs is a fresh slice (literal, make, nil), never a re-slice of or an append to the saved one")
	if fn := c.Need("C14.rollbackcopy", "services/task_store", "Service", "updateAllAssociatedTasks"); fn != nil {
		c.Analysed(fn)
		var saved ast.Expr
		var savePos token.Pos
		ast.Inspect(fn.Decl.Body, func(n ast.Node) bool {
			as, ok := n.(*ast.AssignStmt)
			if !ok || len(as.Lhs) != 1 || len(as.Rhs) != 1 {
				return true
			}
			if ix, ok := ast.Unparen(as.Lhs[0]).(*ast.IndexExpr); ok {
				if _, isMap := info.TypeOf(ix.X).Underlying().(*types.Map); isMap {
					if sel, ok := ast.Unparen(as.Rhs[0]).(*ast.SelectorExpr); ok && sel.Sel.Name == "DBRPs" {
						saved, savePos = as.Rhs[0], as.Pos()
					}
				}
			}
			return true
		})
		if saved == nil {
			c.Undecided("C14.rollbackcopy", "Service.updateAllAssociatedTasks", fn.Decl.Pos(), "the statement that saves the task's dbrps for the rollback was not found")
		} else {
			text := types.ExprString(saved)
			// the first assignment to the saved expression behind the save
			var first *ast.AssignStmt
			ast.Inspect(fn.Decl.Body, func(n ast.Node) bool {
				as, ok := n.(*ast.AssignStmt)
				if !ok || as.Pos() <= savePos || len(as.Lhs) != 1 || len(as.Rhs) != 1 {
					return true
				}
				if _, inLit := n.(*ast.AssignStmt); inLit && types.ExprString(as.Lhs[0]) == text && (first == nil || as.Pos() < first.Pos()) {
					first = as
				}
				return true
			})
			fresh := false
			why := "it is never assigned again"
			if first != nil {
				r := ast.Unparen(first.Rhs[0])
				why = "it is next assigned " + types.ExprString(r)
				switch x := r.(type) {
				case *ast.CompositeLit:
					fresh = true
				case *ast.Ident:
					fresh = x.Name == "nil"
				case *ast.CallExpr:
					fresh = core.IsBuiltin(info, x, "make")
				}
			}
			c.Check(fresh, "C14.rollbackcopy", "Service.updateAllAssociatedTasks#fresh-dbrps", savePos, "the dbrps saved for the rollback (%s) share their backing array with what is written next (%s): the appends of the new template's dbrps overwrite the saved copy, and a template update that is rejected at a later task rolls the earlier tasks back to the old script with the NEW dbrps — a rejected request changed task definitions, and the tasks are restarted subscribed to the wrong database", text, why)
		}
	}
	c.Rule("C14.lasterror", "A3 (provenance): saveLastError writes the error into the task as it is stored now — the value it replaces comes from a Get of the same id inside the function — never into a Task value handed in by the caller (the goroutine that waits for a running task holds the definition of its start)")
	if fn := c.Need("C14.lasterror", "services/task_store", "Service", "saveLastError"); fn != nil {
		c.Analysed(fn)
		var got types.Object
		ast.Inspect(fn.Decl.Body, func(n ast.Node) bool {
			as, ok := n.(*ast.AssignStmt)
			if !ok || len(as.Rhs) != 1 {
				return true
			}
			if call, ok := as.Rhs[0].(*ast.CallExpr); ok {
				if cal := core.Callee(info, call); cal != nil && cal.Name() == "Get" {
					if id, ok := as.Lhs[0].(*ast.Ident); ok {
						got = info.Defs[id]
						if got == nil {
							got = info.Uses[id]
						}
					}
				}
			}
			return true
		})
		replaced, fromGet := false, false
		ast.Inspect(fn.Decl.Body, func(n ast.Node) bool {
			call, ok := n.(*ast.CallExpr)
			if !ok || len(call.Args) != 1 {
				return true
			}
			if cal := core.Callee(info, call); cal != nil && (cal.Name() == "Replace" || cal.Name() == "Put") {
				replaced = true
				if id, ok := ast.Unparen(call.Args[0]).(*ast.Ident); ok && got != nil && info.Uses[id] == got {
					fromGet = true
				}
			}
			return true
		})
		if !replaced {
			c.Undecided("C14.lasterror", "Service.saveLastError", fn.Decl.Pos(), "no Replace/Put found")
		} else {
			c.Check(fromGet, "C14.lasterror", "Service.saveLastError#read-modify-write", fn.Decl.Pos(), "saveLastError does not replace the task it has just read from the store: the goroutine that waits for a running task to finish calls it long after the start — writing back a Task value from then reverts every definition accepted since (script, dbrps, vars); the API no longer shows the last accepted definition, and after a restart the old one runs")
		}
	}
}

// c12Units (seed C12-11-r4): a units analysis of the times the join compares. A time is RAW (a message's Time()), a BUCKET (the
// result of Round/Truncate, i.e. rounded to the tolerance), ZERO (time.Time{}) or unknown. Locals take the kind of what is
// assigned to them, map elements and fields the kind of what is stored into them anywhere in the join. Before/After/Equal must
// not compare a RAW time with a BUCKET: the low marks and set times are buckets, and a raw time in the upper half of a
// tolerance interval is on the other side of its own bucket.
func c12Units(c *core.Ctx, root *packages.Package) {
	c.Rule("C12.units", "A7 (units of time values): in the join, no Before/After/Equal compares a message's raw Time() with a time that was rounded to the tolerance (a low mark, a set time, a local assigned from Round): kinds are propagated through locals, map elements and fields; only definite RAW-vs-BUCKET comparisons are reported")
	info := root.TypesInfo
	const (
		unknown = iota
		zero
		raw
		bucket
		mixed
	)
	join := func(a, b int) int {
		switch {
		case a == unknown || a == zero:
			if b == unknown && a == zero {
				return zero
			}
			return b
		case b == unknown || b == zero:
			return a
		case a == b:
			return a
		}
		return mixed
	}
	isTime := func(e ast.Expr) bool { return core.TypeIs(info.TypeOf(e), "time", "Time") }
	var fns []*core.Func
	for _, f := range core.AllFuncs(root) {
		switch core.RecvName(f.Decl) {
		case "JoinNode", "joinGroup", "joinset":
			fns = append(fns, f)
		}
	}
	store := map[types.Object]int{} // fields (incl. map-typed ones: kind of the element stored)
	local := map[types.Object]int{}
	var kind func(e ast.Expr) int
	kind = func(e ast.Expr) int {
		e = ast.Unparen(e)
		switch x := e.(type) {
		case *ast.CompositeLit:
			if isTime(x) && len(x.Elts) == 0 {
				return zero
			}
		case *ast.CallExpr:
			if sel, ok := x.Fun.(*ast.SelectorExpr); ok {
				switch sel.Sel.Name {
				case "Round", "Truncate":
					if isTime(sel.X) {
						return bucket
					}
				case "Time":
					if len(x.Args) == 0 && isTime(x) {
						return raw
					}
				}
			}
		case *ast.Ident:
			if o := info.Uses[x]; o != nil {
				return local[o]
			}
		case *ast.SelectorExpr:
			if s, ok := info.Selections[x]; ok && s.Kind() == types.FieldVal {
				return store[s.Obj()]
			}
		case *ast.IndexExpr:
			if sel, ok := ast.Unparen(x.X).(*ast.SelectorExpr); ok {
				if s, ok := info.Selections[sel]; ok && s.Kind() == types.FieldVal {
					return store[s.Obj()]
				}
			}
		}
		return unknown
	}
	for round := 0; round < 6; round++ {
		changed := false
		set := func(m map[types.Object]int, o types.Object, k int) {
			if o == nil || k == unknown {
				return
			}
			if nk := join(m[o], k); nk != m[o] {
				m[o] = nk
				changed = true
			}
		}
		for _, f := range fns {
			ast.Inspect(f.Decl.Body, func(n ast.Node) bool {
				switch x := n.(type) {
				case *ast.AssignStmt:
					if len(x.Lhs) != len(x.Rhs) {
						// v, ok := m[k]
						if len(x.Lhs) == 2 && len(x.Rhs) == 1 {
							if id, ok := x.Lhs[0].(*ast.Ident); ok && isTime(x.Lhs[0]) {
								o := info.Defs[id]
								if o == nil {
									o = info.Uses[id]
								}
								set(local, o, kind(x.Rhs[0]))
							}
						}
						return true
					}
					for i, l := range x.Lhs {
						if !isTime(l) {
							continue
						}
						k := kind(x.Rhs[i])
						switch y := ast.Unparen(l).(type) {
						case *ast.Ident:
							o := info.Defs[y]
							if o == nil {
								o = info.Uses[y]
							}
							set(local, o, k)
						case *ast.SelectorExpr:
							if s, ok := info.Selections[y]; ok && s.Kind() == types.FieldVal {
								set(store, s.Obj(), k)
							}
						case *ast.IndexExpr:
							if sel, ok := ast.Unparen(y.X).(*ast.SelectorExpr); ok {
								if s, ok := info.Selections[sel]; ok && s.Kind() == types.FieldVal {
									set(store, s.Obj(), k)
								}
							}
						}
					}
				case *ast.RangeStmt:
					// for t := range g.sets: the key of a map keyed by time has the kind of the keys stored
				}
				return true
			})
		}
		if !changed {
			break
		}
	}
	n := 0
	names := map[int]string{raw: "a message's raw Time()", bucket: "a time rounded to the tolerance"}
	for _, f := range fns {
		k := 0
		ast.Inspect(f.Decl.Body, func(nd ast.Node) bool {
			call, ok := nd.(*ast.CallExpr)
			if !ok || len(call.Args) != 1 {
				return true
			}
			sel, ok := call.Fun.(*ast.SelectorExpr)
			if !ok || (sel.Sel.Name != "Before" && sel.Sel.Name != "After" && sel.Sel.Name != "Equal") || !isTime(sel.X) || !isTime(call.Args[0]) {
				return true
			}
			n++
			k++
			a, b := kind(sel.X), kind(call.Args[0])
			cons := core.RecvName(f.Decl) + "." + f.Decl.Name.Name + "#cmp" + strconvItoa(k)
			if (a == raw && b == bucket) || (a == bucket && b == raw) {
				c.Fail("C12.units", cons, call.Pos(), "%s.%s compares %s (%s) with %s (%s): a point in the upper half of a tolerance interval (6s with a 10s tolerance is in bucket 10s) is on the other side of its own bucket when its raw time is compared — it looks older than the low mark exactly when its partner arrives, is sent alone and the pair is lost under one arrival order only", core.RecvName(f.Decl), f.Decl.Name.Name, types.ExprString(sel.X), names[a], types.ExprString(call.Args[0]), names[b])
			} else {
				c.Ok("C12.units", cons)
			}
			return true
		})
	}
	c.Floor("C12.units", "time comparisons in the join", n, 10)
}

func strconvItoa(i int) string {
	if i == 0 {
		return "0"
	}
	s := ""
	for i > 0 {
		s = string(rune('0'+i%10)) + s
		i /= 10
	}
	return s
}

// c11KeepState (seed C11-12-r4): a streaming transformation (cumulativeSum, difference, elapsed, movingAverage, derivative) is
// its running state. A point the reducer cannot take — the field missing, another type — is skipped; it must not cost the
// state: Point and BatchPoint of the transformation group never assign the reduce context (only BeginBatch starts a new one,
// and realizeReduceContext creates the first).
func c11KeepState(c *core.Ctx, root *packages.Package) {
	c.Rule("C11.keepstate", "A2: influxqlStreamingTransformGroup.Point and .BatchPoint never assign the reduce context: a point that cannot be aggregated is skipped without resetting the running state of cumulativeSum/difference/elapsed/movingAverage (a new context starts only in BeginBatch, the first one in realizeReduceContext)")
	info := root.TypesInfo
	for _, m := range []string{"Point", "BatchPoint"} {
		fn := c.Need("C11.keepstate", "", "influxqlStreamingTransformGroup", m)
		if fn == nil {
			continue
		}
		c.Analysed(fn)
		bad := token.NoPos
		ast.Inspect(fn.Decl.Body, func(n ast.Node) bool {
			if as, ok := n.(*ast.AssignStmt); ok {
				for _, l := range as.Lhs {
					if sel, ok := ast.Unparen(l).(*ast.SelectorExpr); ok && sel.Sel.Name == "rc" {
						if s, ok := info.Selections[sel]; ok && s.Kind() == types.FieldVal {
							bad = as.Pos()
						}
					}
				}
			}
			return true
		})
		c.Check(bad == token.NoPos, "C11.keepstate", "influxqlStreamingTransformGroup."+m+"#rc", bad, "influxqlStreamingTransformGroup.%s assigns the reduce context: one point that lacks the field (or carries it with another type) resets the running state — cumulativeSum restarts from zero, difference/elapsed/movingAverage lose their previous point or window and drop an output — for every sparse point in the data", m)
	}
}

// c05Rules4 (seeds C05-11-r4, C05-12-r4).
func c05Rules4(c *core.Ctx) {
	c.Rule("C05.evalassert", "A4: in the expression evaluator no single-value type assertion is applied to a NodeEvaluator: which evaluator stands at an operand depends on the expression (a reference, a unary minus over one, a lambda variable wrapping one), and the assertion runs for points that lack a field — a wrong guess is a panic on the direct EvalBool path of where/alert/from")
	if sp := c.P.Pkg("tick/stateful"); sp != nil {
		info := sp.TypesInfo
		n := 0
		for _, f := range core.AllFuncs(sp) {
			okForm := map[*ast.TypeAssertExpr]bool{}
			ast.Inspect(f.Decl.Body, func(nd ast.Node) bool {
				switch x := nd.(type) {
				case *ast.AssignStmt:
					if len(x.Lhs) == 2 && len(x.Rhs) == 1 {
						if ta, ok := ast.Unparen(x.Rhs[0]).(*ast.TypeAssertExpr); ok {
							okForm[ta] = true
						}
					}
				case *ast.ValueSpec:
					if len(x.Names) == 2 && len(x.Values) == 1 {
						if ta, ok := ast.Unparen(x.Values[0]).(*ast.TypeAssertExpr); ok {
							okForm[ta] = true
						}
					}
				case *ast.TypeSwitchStmt:
					ast.Inspect(x.Assign, func(m ast.Node) bool {
						if ta, ok := m.(*ast.TypeAssertExpr); ok {
							okForm[ta] = true
						}
						return true
					})
				}
				return true
			})
			ast.Inspect(f.Decl.Body, func(nd ast.Node) bool {
				ta, ok := nd.(*ast.TypeAssertExpr)
				if !ok || ta.Type == nil {
					return true
				}
				nt := core.NamedOf(info.TypeOf(ta.X))
				if nt == nil || nt.Obj().Name() != "NodeEvaluator" || nt.Obj().Pkg() != sp.Types {
					return true
				}
				n++
				name := f.Decl.Name.Name
				if r := core.RecvName(f.Decl); r != "" {
					name = r + "." + name
				}
				c.Check(okForm[ta], "C05.evalassert", name+"#"+types.ExprString(ta.Type), ta.Pos(), "%s asserts a NodeEvaluator to be %s in the single-value form: an operand of type missing need not be a reference node (-\"value\", a lambda variable) — for a point that lacks the field the assertion panics, where/alert/from call EvalBool directly, and one such point ends the task", name, types.ExprString(ta.Type))
				return true
			})
		}
		c.Floor("C05.evalassert", "type assertions on NodeEvaluator values", n, 2)
	}
	c.Rule("C05.udf.abortwait", "A6: UDFNode.abortedCallback closes the node's abort signal and then waits for the writer goroutine (WaitGroup.Wait) on every path: the UDF server closes its input channel as soon as the callback returns, and the writer's select has both arms ready otherwise — a send on the closed channel on a goroutine without recover")
	root := c.P.Pkg("")
	if root == nil {
		return
	}
	info := root.TypesInfo
	fn := c.Need("C05.udf.abortwait", "", "UDFNode", "abortedCallback")
	if fn == nil {
		return
	}
	c.Analysed(fn)
	eng := &an.Engine{Prog: c.P,
		TrackCall: func(call *ast.CallExpr, callee *types.Func) string {
			if core.IsBuiltin(info, call, "close") && len(call.Args) == 1 && an.FieldSel(info, call.Args[0], "UDFNode", "aborted") {
				return "close"
			}
			if callee != nil && callee.Name() == "Wait" {
				if sel, ok := call.Fun.(*ast.SelectorExpr); ok && an.FieldSel(info, sel.X, "UDFNode", "wg") {
					return "wait"
				}
			}
			return ""
		}}
	paths, err := eng.Run(fn)
	if err != nil {
		c.Undecided("C05.udf.abortwait", "UDFNode.abortedCallback", fn.Decl.Pos(), "%v", err)
		return
	}
	good := len(paths) > 0
	for _, p := range paths {
		if p.Exit == "panic" {
			continue
		}
		if !(p.Has("close") && p.Has("wait") && p.Index("close") < p.Index("wait")) {
			good = false
		}
	}
	c.Check(good, "C05.udf.abortwait", "UDFNode.abortedCallback#wait-for-writer", fn.Decl.Pos(), "abortedCallback returns without having waited for the node's writer goroutine behind the abort signal: udf.Server.abort runs the callback and then closes the input channel; a writer that reaches its select afterwards has both the send and the abort arm ready, Go picks at random, and the send on the closed channel panics on a goroutine without recover — a UDF that answers with an error (or dies) while the node is idle ends the process at the next point")
}

// c13Rules4 (seeds C13-10-r4, C13-11-r4).
func c13Rules4(c *core.Ctx) {
	c.Rule("C13.numfmt", "A4: number literals are printed with strconv.FormatFloat(v, 'f', -1, 64): the shortest text that reads back as the same float64 (precision -1) — a bit size of 32 prints the shortest text for a float32, and the formatted script holds another number")
	if ap := c.P.Pkg("tick/ast"); ap != nil {
		info := ap.TypesInfo
		n := 0
		for _, f := range core.AllFuncs(ap) {
			ast.Inspect(f.Decl.Body, func(nd ast.Node) bool {
				call, ok := nd.(*ast.CallExpr)
				if !ok || len(call.Args) != 4 {
					return true
				}
				cal := core.Callee(info, call)
				if cal == nil || cal.Pkg() == nil || cal.Pkg().Path() != "strconv" || cal.Name() != "FormatFloat" {
					return true
				}
				n++
				c.Analysed(f)
				name := f.Decl.Name.Name
				if r := core.RecvName(f.Decl); r != "" {
					name = r + "." + name
				}
				var got []string
				for _, a := range call.Args[1:] {
					g := "?"
					if tv, ok := info.Types[a]; ok && tv.Value != nil {
						g = constant.ToInt(tv.Value).ExactString()
					}
					got = append(got, g)
				}
				c.Check(len(got) == 3 && got[0] == "102" && got[1] == "-1" && got[2] == "64", "C13.numfmt", name+"#FormatFloat", call.Pos(), "%s prints a float with the format arguments %v; ('f', -1, 64) = [102 -1 64] is the shortest text that reads back as the same float64 — with bit size 32, 0.123456789 is written as 0.12345679 and 16777217.0 as 16777216.0: formatting a script changes its thresholds silently", name, got)
				return true
			})
		}
		c.Floor("C13.numfmt", "FormatFloat calls in tick/ast", n, 1)
	} else {
		c.Note("C13.numfmt: tick/ast is not loaded in this run")
	}
	c.Rule("C13.quietplace", "A7: the function that adds the quiet property behind a node's own function descends only through property chains (Operator == TokenDot): a node attached with @ (a UDF) or | ends the descent, otherwise the property is rendered on the parent node")
	tp := c.P.Pkg("pipeline/tick")
	if tp == nil {
		c.Note("C13.quietplace: pipeline/tick is not loaded in this run")
		return
	}
	info := tp.TypesInfo
	for _, f := range core.AllFuncs(tp) {
		emits := false
		ast.Inspect(f.Decl.Body, func(nd ast.Node) bool {
			if kv, ok := nd.(*ast.KeyValueExpr); ok {
				if k, ok := kv.Key.(*ast.Ident); ok && k.Name == "Func" {
					if tv, ok := info.Types[kv.Value]; ok && tv.Value != nil && tv.Value.Kind() == constant.String && constant.StringVal(tv.Value) == "quiet" {
						emits = true
					}
				}
			}
			return true
		})
		fo, _ := info.Defs[f.Decl.Name].(*types.Func)
		if !emits || fo == nil {
			continue
		}
		// the recursive descent and the condition it stands under
		var cond ast.Expr
		ast.Inspect(f.Decl.Body, func(nd ast.Node) bool {
			is, ok := nd.(*ast.IfStmt)
			if !ok {
				return true
			}
			rec := false
			ast.Inspect(is.Body, func(m ast.Node) bool {
				if call, ok := m.(*ast.CallExpr); ok && core.Callee(info, call) == fo {
					rec = true
				}
				return true
			})
			if rec {
				cond = is.Cond
			}
			return true
		})
		if cond == nil {
			continue // no descent: the property is appended at the end
		}
		c.Analysed(f)
		// a conjunct `<x>.Operator == ast.TokenDot`
		okk := false
		var walk func(e ast.Expr)
		walk = func(e ast.Expr) {
			e = ast.Unparen(e)
			b, ok := e.(*ast.BinaryExpr)
			if !ok {
				return
			}
			if b.Op == token.LAND {
				walk(b.X)
				walk(b.Y)
				return
			}
			if b.Op == token.EQL {
				l, r := types.ExprString(b.X), types.ExprString(b.Y)
				if (strings.HasSuffix(l, ".Operator") && strings.HasSuffix(r, "TokenDot")) || (strings.HasSuffix(r, ".Operator") && strings.HasSuffix(l, "TokenDot")) {
					okk = true
				}
			}
		}
		walk(cond)
		c.Check(okk, "C13.quietplace", f.Decl.Name.Name+"#descent", cond.Pos(), "%s descends to place .quiet() under the condition %s, not only through property chains (Operator == ast.TokenDot): a UDF node is attached with @ — the descent walks through the UDF's own function into its parent, and `…|from()@delorean().quiet()` is rendered as `|from().quiet()@delorean()`: the property moves to another node", f.Decl.Name.Name, types.ExprString(cond))
	}
}

// c07LoopbackErr (seed C07-12-r4): the loopback node is an output. The only error its write returns is ErrTaskMasterClosed, once a
// clean shutdown has closed the ingest path; a node that returns it fails, aborts its parent edge, the abort cascades to the
// source and a sibling output never gets the backlog that is still upstream. A write error is reported, never returned.
func c07LoopbackErr(c *core.Ctx, root *packages.Package) {
	c.Rule("C07.loopbackerr", "A1 (sibling agreement): KapacitorLoopbackNode.Point and .BatchPoint report a failed WriteKapacitorPoint and return nil on every path: the write fails exactly during a clean shutdown, and a failing output aborts the edges it shares with its siblings")
	info := root.TypesInfo
	n := 0
	for _, m := range []string{"Point", "BatchPoint"} {
		fn := c.P.FindFunc("", "KapacitorLoopbackNode", m)
		if fn == nil {
			continue
		}
		n++
		eng := &an.Engine{Prog: c.P,
			TrackCall: func(call *ast.CallExpr, callee *types.Func) string {
				if callee != nil && callee.Name() == "WriteKapacitorPoint" {
					return "write"
				}
				return ""
			},
			Classify: func(a an.Atom) (string, bool) {
				if k, ok := an.ErrNilAtom(info, a); ok && strings.Contains(k, "WriteKapacitorPoint(") {
					return "werr", true
				}
				return "", false
			}}
		paths, err := eng.Run(fn)
		if err != nil {
			c.Undecided("C07.loopbackerr", "KapacitorLoopbackNode."+m, fn.Decl.Pos(), "%v", err)
			continue
		}
		good, seen := true, false
		for _, p := range paths {
			if !p.Has("write") || p.Exit == "panic" {
				continue
			}
			seen = true
			v, decided := p.Assign()["werr"]
			last := ""
			if len(p.Rets) > 0 {
				last = p.Rets[len(p.Rets)-1]
			}
			if last != "nil" && (!decided || v) {
				good = false
				c.Fail("C07.loopbackerr", "KapacitorLoopbackNode."+m+"#write-error", p.RetPos, "KapacitorLoopbackNode.%s returns an error on a path where the loopback write failed (path condition: %s): WriteKapacitorPoint fails with ErrTaskMasterClosed as soon as a clean shutdown has closed the ingest path — the node fails, node.start aborts its parent edge, the shared from() fails too, and a sibling influxDBOut never receives the acknowledged backlog that is still upstream, while Close returns nil", m, p.Cond())
				break
			}
		}
		if !seen {
			c.Undecided("C07.loopbackerr", "KapacitorLoopbackNode."+m, fn.Decl.Pos(), "no path writes")
		} else if good {
			c.Ok("C07.loopbackerr", "KapacitorLoopbackNode."+m+"#write-error")
		}
	}
	c.Floor("C07.loopbackerr", "loopback write methods", n, 2)
}

// c13Rules4b (F123, F124; found by a saboteur while preparing round 4).
func c13Rules4b(c *core.Ctx) {
	c.Rule("C13.nilfunc", "A9: in the pipeline→TICKscript function builder a chain node is never made with a function that may be nil: a function obtained from a helper that can return nil (all arguments zero) is tested against nil before it becomes the right side of a chain")
	if tp := c.P.Pkg("pipeline/tick"); tp != nil {
		info := tp.TypesInfo
		mayNil := map[*types.Func]bool{}
		for _, f := range core.AllFuncs(tp) {
			if fo, ok := info.Defs[f.Decl.Name].(*types.Func); ok {
				ast.Inspect(f.Decl.Body, func(n ast.Node) bool {
					if ret, ok := n.(*ast.ReturnStmt); ok && len(ret.Results) == 2 && types.ExprString(ret.Results[0]) == "nil" && types.ExprString(ret.Results[1]) == "nil" {
						mayNil[fo] = true
					}
					return true
				})
			}
		}
		n := 0
		for _, f := range core.AllFuncs(tp) {
			if core.RecvName(f.Decl) != "Function" {
				continue
			}
			// fn, err := <helper>(…)
			var fnObj types.Object
			var helper *types.Func
			nameOnly := false
			ast.Inspect(f.Decl.Body, func(nd ast.Node) bool {
				as, ok := nd.(*ast.AssignStmt)
				if !ok || len(as.Lhs) != 2 || len(as.Rhs) != 1 {
					return true
				}
				call, ok := as.Rhs[0].(*ast.CallExpr)
				if !ok {
					return true
				}
				if cal := core.Callee(info, call); cal != nil && cal.Pkg() == tp.Types && f.Decl.Recv != nil {
					if id, ok := as.Lhs[0].(*ast.Ident); ok {
						if sig, ok := cal.Type().(*types.Signature); ok && sig.Results().Len() == 2 {
							fnObj = info.Defs[id]
							helper = cal
							// called with the name only, the helpers return the bare function
							nameOnly = len(call.Args) == 1 && call.Ellipsis == token.NoPos
						}
					}
				}
				return true
			})
			if fnObj == nil || helper == nil {
				continue
			}
			// uses of fn as the right side of a chain constructor
			ast.Inspect(f.Decl.Body, func(nd ast.Node) bool {
				call, ok := nd.(*ast.CallExpr)
				if !ok || len(call.Args) != 2 {
					return true
				}
				cal := core.Callee(info, call)
				if cal == nil || cal.Pkg() != tp.Types || (cal.Name() != "Dot" && cal.Name() != "Pipe" && cal.Name() != "At") || cal.Type().(*types.Signature).Recv() != nil {
					return true
				}
				id, ok := ast.Unparen(call.Args[1]).(*ast.Ident)
				if !ok || info.Uses[id] != fnObj {
					return true
				}
				n++
				c.Analysed(f)
				cons := "Function." + f.Decl.Name.Name + "#" + cal.Name()
				if !mayNil[helper] || nameOnly {
					c.Ok("C13.nilfunc", cons)
					return true
				}
				text := id.Name
				guarded := guardedBy(f.Decl.Body, call, text, func(cond ast.Expr, br bool) bool {
					b, ok := ast.Unparen(cond).(*ast.BinaryExpr)
					if !ok || types.ExprString(b.X) != text || types.ExprString(b.Y) != "nil" {
						return false
					}
					return (b.Op == token.NEQ) == br
				})
				c.Check(guarded, "C13.nilfunc", cons, call.Pos(), "Function.%s makes a chain node whose right side comes from %s, which returns nil when every argument is a zero value, without testing it against nil: .fill(0) on a query (an argument that was given) renders a chain without a function, and formatting the rendered script dereferences nil", f.Decl.Name.Name, helper.Name())
				return true
			})
		}
		c.Floor("C13.nilfunc", "chain constructions in the function builder", n, 5)
	}
	c.Rule("C13.prec", "A7: BinaryNode.Format does not write its operands directly: each goes through a helper that writes parentheses when the operand is a binary node without the parser's parentheses flag whose operator binds too weak for its place (the helper reads Parens and the Format compares operator precedences) — trees that were not parsed (two where conditions combined with AND) mean in text what the tree means")
	ap := c.P.Pkg("tick/ast")
	if ap == nil {
		return
	}
	info := ap.TypesInfo
	fn := c.Need("C13.prec", "tick/ast", "BinaryNode", "Format")
	if fn == nil {
		return
	}
	c.Analysed(fn)
	direct, viaHelper, comparesPrec := 0, 0, false
	var helper *types.Func
	ast.Inspect(fn.Decl.Body, func(nd ast.Node) bool {
		switch x := nd.(type) {
		case *ast.CallExpr:
			if sel, ok := x.Fun.(*ast.SelectorExpr); ok && sel.Sel.Name == "Format" {
				if an.FieldSel(info, sel.X, "BinaryNode", "Left") || an.FieldSel(info, sel.X, "BinaryNode", "Right") {
					direct++
				}
			}
			if cal := core.Callee(info, x); cal != nil && cal.Pkg() == ap.Types {
				for _, a := range x.Args {
					if an.FieldSel(info, a, "BinaryNode", "Left") || an.FieldSel(info, a, "BinaryNode", "Right") {
						viaHelper++
						helper = cal
					}
				}
				if strings.Contains(strings.ToLower(cal.Name()), "precedence") {
					comparesPrec = true
				}
			}
		case *ast.IndexExpr:
			if id, ok := ast.Unparen(x.X).(*ast.Ident); ok && id.Name == "precedence" {
				comparesPrec = true
			}
		}
		return true
	})
	readsParens := false
	if helper != nil {
		if hf := c.P.FindFunc("tick/ast", "", helper.Name()); hf != nil {
			ast.Inspect(hf.Decl.Body, func(nd ast.Node) bool {
				if sel, ok := nd.(*ast.SelectorExpr); ok && sel.Sel.Name == "Parens" {
					readsParens = true
				}
				return true
			})
		}
	}
	c.Check(direct == 0 && viaHelper >= 2 && comparesPrec && readsParens, "C13.prec", "BinaryNode.Format#operands", fn.Decl.Pos(), "BinaryNode.Format writes an operand without deciding whether it needs parentheses (direct Format calls on Left/Right: %d, operands through a helper: %d, operator precedences compared: %v, helper reads the Parens flag: %v): it relies on the flag the parser sets, and a tree that was not parsed — the condition two where properties are combined into, (a OR b) AND (c OR d) — is written as a OR b AND c OR d, which reads back as another condition", direct, viaHelper, comparesPrec, readsParens)
}

// c15TxHandle (seed C15-10-r4): the transaction handle works inside its own transaction. Every data method of boltTx reaches the
// store through a Bolt helper that is given the handle's own tx; a call of one of Bolt's exported data methods opens another
// transaction, which sees the last committed state instead of the transaction's own writes.
func c15TxHandle(c *core.Ctx) {
	c.Rule("C15.txhandle", "A6 (sibling agreement): every data method of boltTx passes the handle's own transaction to the Bolt helper it delegates to, and calls none of Bolt's methods that open a transaction of their own (db.View/db.Update inside): a List that reads outside the transaction does not see its writes, and a delete followed by a rebuild in one Update re-creates the index entries of the deleted object")
	sp := c.P.Pkg("services/storage")
	if sp == nil {
		return
	}
	info := sp.TypesInfo
	// Bolt methods that open their own transaction
	opens := map[*types.Func]bool{}
	for _, f := range core.AllFuncs(sp) {
		if core.RecvName(f.Decl) != "Bolt" {
			continue
		}
		fo, _ := info.Defs[f.Decl.Name].(*types.Func)
		ast.Inspect(f.Decl.Body, func(n ast.Node) bool {
			if call, ok := n.(*ast.CallExpr); ok {
				if sel, ok := call.Fun.(*ast.SelectorExpr); ok && (sel.Sel.Name == "View" || sel.Sel.Name == "Update" || sel.Sel.Name == "Begin") && an.FieldSel(info, sel.X, "Bolt", "db") {
					opens[fo] = true
				}
			}
			return true
		})
	}
	n := 0
	for _, f := range core.AllFuncs(sp) {
		if core.RecvName(f.Decl) != "boltTx" {
			continue
		}
		var bad *types.Func
		delegates, passesTx := false, true
		ast.Inspect(f.Decl.Body, func(nd ast.Node) bool {
			call, ok := nd.(*ast.CallExpr)
			if !ok {
				return true
			}
			sel, ok := call.Fun.(*ast.SelectorExpr)
			if !ok || !an.FieldSel(info, sel.X, "boltTx", "b") {
				return true
			}
			cal := core.Callee(info, call)
			if cal == nil {
				return true
			}
			delegates = true
			if opens[cal] {
				bad = cal
			}
			// helpers that take a *bolt.Tx first must get t.tx
			if sig, ok := cal.Type().(*types.Signature); ok && sig.Params().Len() > 0 {
				if pt, ok := sig.Params().At(0).Type().(*types.Pointer); ok {
					if nt := core.NamedOf(pt.Elem()); nt != nil && nt.Obj().Name() == "Tx" {
						if len(call.Args) == 0 || !an.FieldSel(info, call.Args[0], "boltTx", "tx") {
							passesTx = false
						}
					}
				}
			}
			return true
		})
		if !delegates {
			continue
		}
		n++
		c.Analysed(f)
		name := "boltTx." + f.Decl.Name.Name
		why := ""
		if bad != nil {
			why = "it calls Bolt." + bad.Name() + ", which opens a transaction of its own"
		} else if !passesTx {
			why = "it does not pass its own tx to the helper"
		}
		c.Check(why == "", "C15.txhandle", name, f.Decl.Pos(), "%s does not work inside the handle's own transaction (%s): it reads the last committed state — a CreateTx followed by a ListTx in one transaction does not list the new object, and DeleteTx followed by RebuildTx in one Update rebuilds index entries for the deleted object, after which every List fails with 'no key exists', also after a reopen", name, why)
	}
	c.Floor("C15.txhandle", "data methods of boltTx", n, 6)
}

// c17NoForward (seed C17-12-r4): normalising the time a task was last scheduled at never moves it forward. Next() is strictly
// after its argument: a last-scheduled time rounded up onto an occurrence (10:00:59.7 → 10:01:00) skips that occurrence.
// NewSchedule derives what it returns from its parameter through UTC, Truncate, Unix/time.Unix only — Round and Add do not occur.
func c17NoForward(c *core.Ctx) {
	c.Rule("C17.noforward", "A4: NewSchedule never moves the last-scheduled time forward: every time.Time it derives from its parameter is made with UTC, Truncate, Unix and time.Unix (all of which keep or lower the time); Round and Add do not occur — Next() is strictly after its argument, so a time rounded up onto an occurrence skips it")
	sp := c.P.Pkg("task/backend/scheduler")
	if sp == nil {
		return
	}
	info := sp.TypesInfo
	fn := c.Need("C17.noforward", "task/backend/scheduler", "", "NewSchedule")
	if fn == nil {
		return
	}
	c.Analysed(fn)
	bad := ""
	pos := token.NoPos
	n := 0
	ast.Inspect(fn.Decl.Body, func(nd ast.Node) bool {
		call, ok := nd.(*ast.CallExpr)
		if !ok {
			return true
		}
		sel, ok := call.Fun.(*ast.SelectorExpr)
		if !ok || !core.TypeIs(info.TypeOf(sel.X), "time", "Time") {
			return true
		}
		n++
		switch sel.Sel.Name {
		case "Round", "Add", "AddDate":
			bad, pos = sel.Sel.Name, call.Pos()
		}
		return true
	})
	c.Check(bad == "", "C17.noforward", "NewSchedule#normalise", pos, "NewSchedule applies %s to the last-scheduled time: a time in the last half second before an occurrence (a restart stamps active tasks with time.Now()) is moved onto the occurrence, Next() is strictly after its argument, and that run is skipped while the stored last-scheduled time has passed it", bad)
	c.Floor("C17.noforward", "time.Time method calls in NewSchedule", n, 3)
}

// c16TickPhase (seed C16-10-r4): the aligned ticker labels every tick with now.Round(every). That is the tick's own time only
// if the periodic ticker runs in phase with the boundaries, i.e. if it is created once the goroutine has waited for the first
// aligned boundary. Created earlier (in Start, when the task starts) its phase is the task's start time: ticks are issued up to
// half an interval before the boundary they are labelled with, or the first boundary is delivered twice.
func c16TickPhase(c *core.Ctx, root *packages.Package) {
	c.Rule("C16.tickphase", "A2 (order on every path of the aligned branch): in timeTicker.Start the periodic ticker of an aligned schedule is created inside the goroutine, behind the select that waits for the first aligned boundary: its phase is then the boundary's, and now.Round(every) is the tick's own time")
	info := root.TypesInfo
	fn := c.Need("C16.tickphase", "", "timeTicker", "Start")
	if fn == nil {
		return
	}
	c.Analysed(fn)
	// the aligned branch: the if statement that contains the go statement
	var lit *ast.FuncLit
	var branch *ast.BlockStmt
	ast.Inspect(fn.Decl.Body, func(n ast.Node) bool {
		is, ok := n.(*ast.IfStmt)
		if !ok {
			return true
		}
		ast.Inspect(is.Body, func(m ast.Node) bool {
			if g, ok := m.(*ast.GoStmt); ok {
				if fl, ok := g.Call.Fun.(*ast.FuncLit); ok {
					lit, branch = fl, is.Body
				}
			}
			return true
		})
		return true
	})
	if lit == nil {
		c.Undecided("C16.tickphase", "timeTicker.Start", fn.Decl.Pos(), "the goroutine of the aligned branch was not found")
		return
	}
	// the wait: the first select of the goroutine
	wait := token.NoPos
	ast.Inspect(lit.Body, func(n ast.Node) bool {
		if s, ok := n.(*ast.SelectStmt); ok && wait == token.NoPos {
			wait = s.End()
		}
		return true
	})
	// creations of the periodic ticker in the aligned branch
	n, bad := 0, token.NoPos
	ast.Inspect(branch, func(nd ast.Node) bool {
		as, ok := nd.(*ast.AssignStmt)
		if !ok || len(as.Lhs) != 1 || len(as.Rhs) != 1 || !an.FieldSel(info, as.Lhs[0], "timeTicker", "ticker") {
			return true
		}
		call, ok := as.Rhs[0].(*ast.CallExpr)
		if !ok {
			return true
		}
		if cal := core.Callee(info, call); cal == nil || cal.Name() != "NewTicker" {
			return true
		}
		n++
		inside := as.Pos() > lit.Body.Pos() && as.End() < lit.Body.End()
		if !inside || wait == token.NoPos || as.Pos() < wait {
			bad = as.Pos()
		}
		return true
	})
	if n == 0 {
		c.Undecided("C16.tickphase", "timeTicker.Start", fn.Decl.Pos(), "the aligned branch creates no periodic ticker")
		return
	}
	c.Check(bad == token.NoPos, "C16.tickphase", "timeTicker.Start#after-alignment", bad, "the aligned branch of timeTicker.Start creates the periodic ticker before the goroutine has waited for the first aligned boundary: the ticker's phase is the moment the task started, but every tick is labelled now.Round(every) — a task started 700ms into a 1s interval issues each tick 300ms before the boundary it names (the query covers a window that is not complete), one started 300ms in delivers the first boundary twice")
}

// c20Wiring (seed C20-10-r4): NewHandler takes five bools in a row; the compiler cannot tell them apart. Each configuration field
// that NewService passes for one of them is, by name, that parameter's field: its name (without "Enabled") shares a longer
// common substring with the name of the parameter at its position than with the name of any other bool parameter.
func c20Wiring(c *core.Ctx) {
	c.Rule("C20.wiring", "A3 (argument roles by name agreement): in every call of httpd.NewHandler each configuration field passed for a bool parameter matches the name of the parameter at its position better than the name of any other bool parameter (longest common substring, ignoring case and the word Enabled): pprof-enabled decides the debug routes, not write-tracing")
	sp := c.P.Pkg("services/httpd")
	if sp == nil {
		return
	}
	info := sp.TypesInfo
	nh := c.P.FindFunc("services/httpd", "", "NewHandler")
	if nh == nil {
		c.Undecided("C20.wiring", "anchor:NewHandler", token.NoPos, "function not found")
		return
	}
	var params []string
	var isBool []bool
	for _, fl := range nh.Decl.Type.Params.List {
		b := false
		if bt, ok := info.TypeOf(fl.Type).Underlying().(*types.Basic); ok && bt.Kind() == types.Bool {
			b = true
		}
		for _, nm := range fl.Names {
			params = append(params, nm.Name)
			isBool = append(isBool, b)
		}
	}
	norm := func(s string) string {
		s = strings.ToLower(s)
		s = strings.ReplaceAll(s, "enabled", "")
		s = strings.ReplaceAll(s, "enable", "")
		return s
	}
	lcs := func(a, b string) int {
		best := 0
		for i := 0; i < len(a); i++ {
			for j := 0; j < len(b); j++ {
				k := 0
				for i+k < len(a) && j+k < len(b) && a[i+k] == b[j+k] {
					k++
				}
				if k > best {
					best = k
				}
			}
		}
		return best
	}
	fo, _ := info.Defs[nh.Decl.Name].(*types.Func)
	n := 0
	for _, f := range core.AllFuncs(sp) {
		ast.Inspect(f.Decl.Body, func(nd ast.Node) bool {
			call, ok := nd.(*ast.CallExpr)
			if !ok || core.Callee(info, call) != fo || len(call.Args) != len(params) {
				return true
			}
			for i, a := range call.Args {
				if !isBool[i] {
					continue
				}
				sel, ok := ast.Unparen(a).(*ast.SelectorExpr)
				if !ok {
					continue // a literal
				}
				n++
				field := norm(sel.Sel.Name)
				own := lcs(field, norm(params[i]))
				better := ""
				for j, p := range params {
					if j != i && isBool[j] && lcs(field, norm(p)) > own {
						better = p
					}
				}
				c.Check(better == "", "C20.wiring", f.Decl.Name.Name+"#"+params[i], a.Pos(), "%s passes %s for NewHandler's parameter %s, although by name it is the setting of parameter %s: the bools of NewHandler are positional and of one type — with pprof-enabled and write-tracing exchanged, write-tracing = true serves /debug/vars and /debug/pprof/* without credentials while auth-enabled is true", f.Decl.Name.Name, types.ExprString(a), params[i], better)
			}
			return true
		})
	}
	c.Floor("C20.wiring", "configuration fields passed for bool parameters of NewHandler", n, 4)
}

// c19AgentWait (seed C19-10-r4): Agent.Wait returns only when both loops of the agent have reported. The wait-for-all idiom is a
// loop around a select whose arms receive from a channel and then set it to nil; the loop has to go on while ANY of those channels
// is still to be heard from: its condition is the disjunction of `<ch> != nil` over exactly the channels of the arms.
func c19AgentWait(c *core.Ctx) {
	c.Rule("C19.agentwait", "A6 (wait-for-all idiom): in Agent.Wait the loop around the select that receives the read loop's and the write loop's results and nils each channel continues while any of these channels is not nil (a disjunction over exactly the arms' channels): with a conjunction Wait returns after the first result, a process UDF exits while its last response is still being written, and the last point or the END of the last batch is lost")
	ap := c.P.Pkg("udf/agent")
	if ap == nil {
		return
	}
	info := ap.TypesInfo
	fn := c.Need("C19.agentwait", "udf/agent", "Agent", "Wait")
	if fn == nil {
		return
	}
	c.Analysed(fn)
	var loop *ast.ForStmt
	var sel *ast.SelectStmt
	ast.Inspect(fn.Decl.Body, func(n ast.Node) bool {
		if f, ok := n.(*ast.ForStmt); ok {
			for _, st := range an.Effective(f.Body.List) {
				if s, ok := st.(*ast.SelectStmt); ok {
					loop, sel = f, s
				}
			}
		}
		return true
	})
	if loop == nil {
		c.Undecided("C19.agentwait", "Agent.Wait", fn.Decl.Pos(), "no loop around a select found")
		return
	}
	// channels of the arms that are set to nil in their arm
	chans := map[string]bool{}
	for _, cl := range sel.Body.List {
		cc := cl.(*ast.CommClause)
		var recv ast.Expr
		switch x := cc.Comm.(type) {
		case *ast.AssignStmt:
			if len(x.Rhs) == 1 {
				if u, ok := ast.Unparen(x.Rhs[0]).(*ast.UnaryExpr); ok && u.Op == token.ARROW {
					recv = u.X
				}
			}
		case *ast.ExprStmt:
			if u, ok := ast.Unparen(x.X).(*ast.UnaryExpr); ok && u.Op == token.ARROW {
				recv = u.X
			}
		}
		if recv == nil {
			continue
		}
		text := types.ExprString(recv)
		for _, st := range cc.Body {
			if as, ok := st.(*ast.AssignStmt); ok && len(as.Lhs) == 1 && len(as.Rhs) == 1 && types.ExprString(as.Lhs[0]) == text && types.ExprString(as.Rhs[0]) == "nil" {
				chans[text] = true
			}
		}
	}
	_ = info
	// the condition: a disjunction of `<ch> != nil`
	got := map[string]bool{}
	pure := loop.Cond != nil
	var walk func(e ast.Expr)
	walk = func(e ast.Expr) {
		b, ok := ast.Unparen(e).(*ast.BinaryExpr)
		if !ok {
			pure = false
			return
		}
		switch b.Op {
		case token.LOR:
			walk(b.X)
			walk(b.Y)
		case token.NEQ:
			if types.ExprString(b.Y) == "nil" {
				got[types.ExprString(b.X)] = true
			} else {
				pure = false
			}
		default:
			pure = false
		}
	}
	if loop.Cond != nil {
		walk(loop.Cond)
	}
	same := pure && len(got) == len(chans) && len(chans) >= 2
	for k := range chans {
		if !got[k] {
			same = false
		}
	}
	cond := "none"
	if loop.Cond != nil {
		cond = types.ExprString(loop.Cond)
	}
	c.Check(same, "C19.agentwait", "Agent.Wait#wait-for-all", loop.Pos(), "Agent.Wait's loop runs under the condition %s, not while any of %v is still to be heard from: it ends after the first of the agent's two loops has reported — the read loop's result is already there when the handler is done, so Wait returns while the write loop has only just taken the last response; a process UDF (Start, Wait, exit) loses its last point, for a batch the END message and with it the whole last batch, and the write error is never reported", cond, an.SortedKeys(chans))
}

// c07ForkEdge (F125): the input edge of a stream task is closed by delFork(id). The edge that newFork creates must therefore be
// stored where delFork finds it for EVERY task: in a map keyed by the task's name, outside the loop over the fork keys (a task
// without a from node has no keys), and delFork must close what it finds there.
func c07ForkEdge(c *core.Ctx, root *packages.Package) {
	c.Rule("C07.forkedge", "A1: F125: newFork stores the edge it creates under the task's name on every path — not only inside the loop over the fork keys, which is empty for a stream task without a from node — and delFork closes the edge it finds under that name: otherwise the task's input never ends and StopTask/DeleteTask/Close never return")
	info := root.TypesInfo
	nf := c.Need("C07.forkedge", "", "TaskMaster", "newFork")
	df := c.Need("C07.forkedge", "", "TaskMaster", "delFork")
	if nf == nil || df == nil {
		return
	}
	c.Analysed(nf)
	c.Analysed(df)
	name := an.ParamName(nf.Decl.Type, 0)
	// the edge variable: the local assigned from newEdge(...)
	var edgeObj types.Object
	ast.Inspect(nf.Decl.Body, func(n ast.Node) bool {
		if as, ok := n.(*ast.AssignStmt); ok && len(as.Lhs) == 1 && len(as.Rhs) == 1 {
			if call, ok := as.Rhs[0].(*ast.CallExpr); ok {
				if cal := core.Callee(info, call); cal != nil && cal.Name() == "newEdge" {
					if id, ok := as.Lhs[0].(*ast.Ident); ok {
						edgeObj = info.Defs[id]
					}
				}
			}
		}
		return true
	})
	if edgeObj == nil {
		c.Undecided("C07.forkedge", "TaskMaster.newFork", nf.Decl.Pos(), "the edge created by newEdge was not found")
		return
	}
	// a store <field>[name] = e among the top-level statements (not inside a loop or condition)
	var byTask *types.Var
	for _, st := range nf.Decl.Body.List {
		as, ok := st.(*ast.AssignStmt)
		if !ok || len(as.Lhs) != 1 || len(as.Rhs) != 1 {
			continue
		}
		ix, ok := ast.Unparen(as.Lhs[0]).(*ast.IndexExpr)
		if !ok || types.ExprString(ix.Index) != name {
			continue
		}
		id, ok := ast.Unparen(as.Rhs[0]).(*ast.Ident)
		if !ok || info.Uses[id] != edgeObj {
			continue
		}
		if sel, ok := ast.Unparen(ix.X).(*ast.SelectorExpr); ok {
			if s, ok := info.Selections[sel]; ok && s.Kind() == types.FieldVal {
				byTask, _ = s.Obj().(*types.Var)
			}
		}
	}
	if byTask == nil {
		c.Fail("C07.forkedge", "TaskMaster.newFork#by-task", nf.Decl.Pos(), "newFork stores the edge it creates only inside the loop over the fork keys: a stream task without a from node (stream|stats(10s)|log()) has no keys, delFork finds nothing to close, the task waits for the end of its input for good — StopTask, DeleteTask and Close never return and hold up every later start and stop")
		return
	}
	c.Ok("C07.forkedge", "TaskMaster.newFork#by-task")
	// delFork closes what it finds there
	id := an.ParamName(df.Decl.Type, 0)
	closes := false
	ast.Inspect(df.Decl.Body, func(n ast.Node) bool {
		is, ok := n.(*ast.IfStmt)
		if !ok || is.Init == nil {
			return true
		}
		as, ok := is.Init.(*ast.AssignStmt)
		if !ok || len(as.Rhs) != 1 {
			return true
		}
		ix, ok := ast.Unparen(as.Rhs[0]).(*ast.IndexExpr)
		if !ok || types.ExprString(ix.Index) != id {
			return true
		}
		sel, ok := ast.Unparen(ix.X).(*ast.SelectorExpr)
		if !ok {
			return true
		}
		if s, ok := info.Selections[sel]; !ok || s.Obj() != byTask {
			return true
		}
		v, _ := as.Lhs[0].(*ast.Ident)
		ast.Inspect(is.Body, func(m ast.Node) bool {
			if call, ok := m.(*ast.CallExpr); ok {
				if cs, ok := call.Fun.(*ast.SelectorExpr); ok && cs.Sel.Name == "Close" && v != nil {
					if x, ok := ast.Unparen(cs.X).(*ast.Ident); ok && info.Uses[x] == info.Defs[v] {
						closes = true
					}
				}
			}
			return true
		})
		return true
	})
	c.Check(closes, "C07.forkedge", "TaskMaster.delFork#close-by-task", df.Decl.Pos(), "delFork does not close the edge stored under the task's name in %s: the edge of a fork without keys is never closed", byTask.Name())
}

// c13MarshalPure (F126): writing a node to JSON (or to text) does not change the node. In every MarshalJSON/MarshalText method
// of the pipeline and AST packages no statement stores through the receiver: not through the receiver itself, not through a
// local that was initialised with a slice, map or pointer of the receiver (raw.Args = n.Args; raw.Args[i] = … writes n.Args[i]),
// not through an embedded alias pointer of the receiver.
func c13MarshalPure(c *core.Ctx) {
	c.Rule("C13.marshalpure", "A9: F126: a MarshalJSON/MarshalText method does not store through its receiver — neither directly nor through a local (or a field of a local struct) that aliases a slice, map or pointer of the receiver: a pipeline written to JSON is the same pipeline afterwards (InfluxQLNode.MarshalJSON turned the duration arguments of the node itself into strings; the pipeline then rendered |elapsed('value', '3s'))")
	n := 0
	for _, rel := range []string{"pipeline", "tick/ast", "pipeline/tick"} {
		pkg := c.P.Pkg(rel)
		if pkg == nil {
			continue
		}
		info := pkg.TypesInfo
		for _, f := range core.AllFuncs(pkg) {
			if f.Decl.Recv == nil || f.Decl.Body == nil || (f.Decl.Name.Name != "MarshalJSON" && f.Decl.Name.Name != "MarshalText") {
				continue
			}
			if len(f.Decl.Recv.List) == 0 || len(f.Decl.Recv.List[0].Names) == 0 {
				n++
				c.Ok("C13.marshalpure", core.RecvName(f.Decl)+"."+f.Decl.Name.Name)
				continue
			}
			recv := info.Defs[f.Decl.Recv.List[0].Names[0]]
			if recv == nil {
				continue
			}
			c.Analysed(f)
			n++
			construct := core.RecvName(f.Decl) + "." + f.Decl.Name.Name
			bad, what := c13StoresThrough(info, f.Decl.Body, recv, nil)
			if bad != token.NoPos {
				c.Fail("C13.marshalpure", construct, bad, "%s stores through its receiver (%s): writing the node to JSON changes the node — what is rendered, written or run from the same pipeline afterwards is not what was defined", construct, what)
			} else {
				c.Ok("C13.marshalpure", construct)
			}
		}
	}
	c.Floor("C13.marshalpure", "MarshalJSON/MarshalText methods", n, 40)
	// the same for the two renderers: a Build method of pipeline/tick does not store through the pipeline node it renders,
	// a Format method of tick/ast does not store through the node it writes
	c.Rule("C13.renderpure", "A9: F126 class: rendering does not change what is rendered — a Build method of pipeline/tick does not store through the pipeline node it is given (no in-place sort of the node's slices, no element store), a Format method of tick/ast does not store through its receiver")
	m := 0
	if tp := c.P.Pkg("pipeline/tick"); tp != nil {
		for _, f := range core.AllFuncs(tp) {
			if f.Decl.Recv == nil || f.Decl.Body == nil || f.Decl.Name.Name != "Build" || len(f.Decl.Type.Params.List) == 0 || len(f.Decl.Type.Params.List[0].Names) == 0 {
				continue
			}
			root := tp.TypesInfo.Defs[f.Decl.Type.Params.List[0].Names[0]]
			if root == nil {
				continue
			}
			if _, ok := root.Type().Underlying().(*types.Pointer); !ok {
				continue
			}
			c.Analysed(f)
			m++
			construct := core.RecvName(f.Decl) + ".Build"
			if bad, what := c13StoresThrough(tp.TypesInfo, f.Decl.Body, root, nil); bad != token.NoPos {
				c.Fail("C13.renderpure", construct, bad, "%s stores through the pipeline node it renders (%s): rendering a pipeline to TICKscript changes the pipeline", construct, what)
			} else {
				c.Ok("C13.renderpure", construct)
			}
		}
	}
	if ap := c.P.Pkg("tick/ast"); ap != nil {
		for _, f := range core.AllFuncs(ap) {
			if f.Decl.Recv == nil || f.Decl.Body == nil || f.Decl.Name.Name != "Format" || len(f.Decl.Recv.List) == 0 || len(f.Decl.Recv.List[0].Names) == 0 {
				continue
			}
			root := ap.TypesInfo.Defs[f.Decl.Recv.List[0].Names[0]]
			if root == nil {
				continue
			}
			c.Analysed(f)
			m++
			construct := core.RecvName(f.Decl) + ".Format"
			exempted := ""
			bad, what := c13StoresThrough(ap.TypesInfo, f.Decl.Body, root, func(pos token.Pos, what string) bool {
				// read and verified: the store fills an empty cache field with the text about to be written
				if fld := c13MemoStore(ap.TypesInfo, f.Decl.Body, root, pos); fld != "" && c13RenderPureExempt[construct+"#"+fld] != "" {
					exempted = c13RenderPureExempt[construct+"#"+fld]
					return true
				}
				return false
			})
			if bad == token.NoPos && exempted != "" {
				c.Ok("C13.renderpure", construct, "exempt: "+exempted)
				continue
			}
			if bad != token.NoPos {
				c.Fail("C13.renderpure", construct, bad, "%s stores through the node it writes (%s): formatting a script changes its syntax tree", construct, what)
			} else {
				c.Ok("C13.renderpure", construct)
			}
		}
	}
	c.Floor("C13.renderpure", "Build and Format methods", m, 40)
}

// c13StoresThrough reports the first statement of body that stores through root: directly, through a local that aliases a
// slice, map or pointer reached from root, through a field of a local struct initialised with one, or by an in-place builtin
// or sort on such memory.
func c13StoresThrough(info *types.Info, body *ast.BlockStmt, recv types.Object, skip func(token.Pos, string) bool) (token.Pos, string) {
	f := struct{ Decl struct{ Body *ast.BlockStmt } }{}
	f.Decl.Body = body
	refLike := func(e ast.Expr) bool {
		t := info.TypeOf(e)
		if t == nil {
			return false
		}
		switch t.Underlying().(type) {
		case *types.Basic:
			return false
		}
		return true
	}
	aliasVar := map[types.Object]bool{}
	type lf struct {
		l types.Object
		f string
	}
	fieldRooted := map[lf]int{}
	fieldOther := map[lf]int{}
	// the name of the first embedded hop of a promoted selection, "" otherwise
	firstHop := func(sel *ast.SelectorExpr) string {
		s, ok := info.Selections[sel]
		if !ok || len(s.Index()) < 2 {
			return ""
		}
		t := s.Recv()
		if p, ok := t.Underlying().(*types.Pointer); ok {
			t = p.Elem()
		}
		if st, ok := t.Underlying().(*types.Struct); ok && s.Index()[0] < st.NumFields() {
			return st.Field(s.Index()[0]).Name()
		}
		return ""
	}
	var rooted func(e ast.Expr) bool
	rooted = func(e ast.Expr) bool {
		switch x := e.(type) {
		case *ast.Ident:
			o := info.Uses[x]
			return o != nil && (o == recv || aliasVar[o])
		case *ast.SelectorExpr:
			if id, ok := ast.Unparen(x.X).(*ast.Ident); ok {
				if o := info.Uses[id]; o != nil && o != recv && !aliasVar[o] {
					k := lf{o, x.Sel.Name}
					if h := firstHop(x); h != "" {
						k = lf{o, h}
					}
					return fieldRooted[k] > 0 && fieldOther[k] == 0
				}
			}
			return rooted(x.X)
		case *ast.IndexExpr:
			return rooted(x.X)
		case *ast.SliceExpr:
			return rooted(x.X)
		case *ast.StarExpr:
			return rooted(x.X)
		case *ast.ParenExpr:
			return rooted(x.X)
		case *ast.UnaryExpr:
			return x.Op == token.AND && rooted(x.X)
		case *ast.CallExpr:
			if tv, ok := info.Types[x.Fun]; ok && tv.IsType() && len(x.Args) == 1 {
				return rooted(x.Args[0])
			}
		}
		return false
	}
	// two passes: aliases may be chained
	for pass := 0; pass < 3; pass++ {
		fieldRooted, fieldOther = map[lf]int{}, map[lf]int{}
		bind := func(lhs ast.Expr, rhs ast.Expr) {
			r := rhs != nil && refLike(rhs) && rooted(rhs)
			switch l := ast.Unparen(lhs).(type) {
			case *ast.Ident:
				o := info.Defs[l]
				if o == nil {
					o = info.Uses[l]
				}
				if o != nil && o != recv && r {
					aliasVar[o] = true
				}
				// a composite literal (or its address) bound to a local: its fields
				cl := rhs
				if u, ok := cl.(*ast.UnaryExpr); ok && u.Op == token.AND {
					cl = u.X
				}
				if lit, ok := cl.(*ast.CompositeLit); ok && o != nil {
					for _, el := range lit.Elts {
						if kv, ok := el.(*ast.KeyValueExpr); ok {
							if k, ok := kv.Key.(*ast.Ident); ok {
								if refLike(kv.Value) && rooted(kv.Value) {
									fieldRooted[lf{o, k.Name}]++
								} else {
									fieldOther[lf{o, k.Name}]++
								}
							}
						}
					}
				}
			case *ast.SelectorExpr:
				if id, ok := ast.Unparen(l.X).(*ast.Ident); ok {
					if o := info.Uses[id]; o != nil && o != recv && !aliasVar[o] && firstHop(l) == "" {
						if r {
							fieldRooted[lf{o, l.Sel.Name}]++
						} else {
							fieldOther[lf{o, l.Sel.Name}]++
						}
					}
				}
			}
		}
		ast.Inspect(f.Decl.Body, func(nd ast.Node) bool {
			switch s := nd.(type) {
			case *ast.AssignStmt:
				if len(s.Lhs) == len(s.Rhs) {
					for i := range s.Lhs {
						bind(s.Lhs[i], s.Rhs[i])
					}
				}
			case *ast.ValueSpec:
				if len(s.Names) == len(s.Values) {
					for i := range s.Names {
						bind(s.Names[i], s.Values[i])
					}
				}
			case *ast.RangeStmt:
				if s.Value != nil && s.Tok == token.DEFINE && rooted(s.X) {
					if id, ok := s.Value.(*ast.Ident); ok {
						if o := info.Defs[id]; o != nil {
							if _, basic := o.Type().Underlying().(*types.Basic); !basic {
								if _, iface := o.Type().Underlying().(*types.Interface); !iface {
									aliasVar[o] = true
								}
							}
						}
					}
				}
			}
			return true
		})
	}
	// stores
	bad := token.NoPos
	what := ""
	through := func(lhs ast.Expr) bool {
		switch l := ast.Unparen(lhs).(type) {
		case *ast.SelectorExpr:
			if id, ok := ast.Unparen(l.X).(*ast.Ident); ok {
				if o := info.Uses[id]; o != nil && o != recv && !aliasVar[o] {
					if h := firstHop(l); h != "" {
						k := lf{o, h}
						return fieldRooted[k] > 0 && fieldOther[k] == 0
					}
					return false // a field of a local struct
				}
			}
			return rooted(l.X)
		case *ast.IndexExpr:
			return rooted(l.X)
		case *ast.StarExpr:
			return rooted(l.X)
		}
		return false
	}
	ast.Inspect(f.Decl.Body, func(nd ast.Node) bool {
		if bad != token.NoPos && (skip == nil || !skip(bad, what)) {
			return false
		}
		switch s := nd.(type) {
		case *ast.AssignStmt:
			for _, l := range s.Lhs {
				if through(l) {
					bad, what = l.Pos(), types.ExprString(l)
				}
			}
		case *ast.IncDecStmt:
			if through(s.X) {
				bad, what = s.X.Pos(), types.ExprString(s.X)
			}
		case *ast.CallExpr:
			// copy(dst, …), sort.*(x), delete(m, k) on memory of the receiver
			if core.IsBuiltin(info, s, "copy") || core.IsBuiltin(info, s, "delete") || core.IsBuiltin(info, s, "clear") {
				if len(s.Args) > 0 && rooted(s.Args[0]) {
					bad, what = s.Pos(), types.ExprString(s)
				}
			}
			if cal := core.Callee(info, s); cal != nil && cal.Pkg() != nil && (cal.Pkg().Path() == "sort" || cal.Pkg().Path() == "slices") && len(s.Args) > 0 && rooted(s.Args[0]) {
				switch cal.Name() {
				case "Sort", "Stable", "Strings", "Ints", "Float64s", "Slice", "SliceStable", "SortFunc", "SortStableFunc", "Reverse":
					bad, what = s.Pos(), types.ExprString(s)
				}
			}
		}
		return true
	})
	if bad != token.NoPos && skip != nil && skip(bad, what) {
		return token.NoPos, ""
	}
	return bad, what
}

// c13RenderPureExempt: stores of a Format method that were read and do not change what the node denotes. Each is accepted
// only in the shape c13MemoStore verifies (the store stands under `if <the same field> == ""`).
var c13RenderPureExempt = map[string]string{
	"DurationNode.Format#Literal": "the literal of a duration node built without source text is filled in with the text Format is about to write; Equal compares Dur only and the parser always sets Literal",
}

// c13MemoStore: the store at pos assigns a field of root and stands directly under an if whose condition is
// `<root>.<that field> == ""`; the name of the field, "" otherwise.
func c13MemoStore(info *types.Info, body *ast.BlockStmt, root types.Object, pos token.Pos) string {
	ok := ""
	ast.Inspect(body, func(n ast.Node) bool {
		is, isIf := n.(*ast.IfStmt)
		if !isIf || is.Init != nil || is.Else != nil {
			return true
		}
		be, isBin := ast.Unparen(is.Cond).(*ast.BinaryExpr)
		if !isBin || be.Op != token.EQL {
			return true
		}
		if bl, isLit := ast.Unparen(be.Y).(*ast.BasicLit); !isLit || bl.Value != `""` {
			return true
		}
		csel, isSel := ast.Unparen(be.X).(*ast.SelectorExpr)
		if !isSel {
			return true
		}
		if id, isID := ast.Unparen(csel.X).(*ast.Ident); !isID || info.Uses[id] != root {
			return true
		}
		for _, st := range an.Effective(is.Body.List) {
			if as, isAs := st.(*ast.AssignStmt); isAs && len(as.Lhs) == 1 && as.Lhs[0].Pos() == pos {
				if lsel, isSel := ast.Unparen(as.Lhs[0]).(*ast.SelectorExpr); isSel && info.Selections[lsel] != nil && info.Selections[csel] != nil && info.Selections[lsel].Obj() == info.Selections[csel].Obj() {
					ok = lsel.Sel.Name
				}
			}
		}
		return true
	})
	return ok
}

// c09SameObject (seed C08-13-r5): Topic.events (by ID) and Topic.sorted (by level) are two indexes over ONE set of *EventState
// objects: updateEvent changes the object it finds through events and re-sorts, and everything computed from sorted (MaxLevel,
// the min-level listing, the topic's level) sees that change only if sorted holds the very same pointer. Wherever a method of
// Topic stores into events[k] and appends to sorted in one block, both get the same variable.
func c09SameObject(c *core.Ctx, pkg *packages.Package, rule string) {
	c.Rule(rule, "A9 (ownership): Topic.events and Topic.sorted index the same *EventState objects: in every block of a Topic method that stores events[k] = X and appends Y to sorted, X and Y are the same variable (a copy in one of the two leaves the level list at the restored levels for good: a recovered alert stays listed CRITICAL and the topic's level never drops)")
	info := pkg.TypesInfo
	n := 0
	for _, f := range core.AllFuncs(pkg) {
		if core.RecvName(f.Decl) != "Topic" {
			continue
		}
		k := 0
		ast.Inspect(f.Decl.Body, func(nd ast.Node) bool {
			blk, ok := nd.(*ast.BlockStmt)
			if !ok {
				return true
			}
			var stored, appended ast.Expr
			for _, st := range blk.List {
				as, ok := st.(*ast.AssignStmt)
				if !ok || len(as.Lhs) != 1 || len(as.Rhs) != 1 {
					continue
				}
				if ix, ok := ast.Unparen(as.Lhs[0]).(*ast.IndexExpr); ok && an.FieldSel(info, ix.X, "Topic", "events") {
					stored = as.Rhs[0]
				}
				if an.FieldSel(info, as.Lhs[0], "Topic", "sorted") {
					if call, ok := ast.Unparen(as.Rhs[0]).(*ast.CallExpr); ok && core.IsBuiltin(info, call, "append") && len(call.Args) == 2 && call.Ellipsis == token.NoPos && an.FieldSel(info, call.Args[0], "Topic", "sorted") {
						appended = call.Args[1]
					}
				}
			}
			if stored == nil || appended == nil {
				return true
			}
			n++
			k++
			c.Analysed(f)
			construct := fmt.Sprintf("Topic.%s#pair%d", f.Decl.Name.Name, k)
			si, sok := ast.Unparen(stored).(*ast.Ident)
			ai, aok := ast.Unparen(appended).(*ast.Ident)
			same := sok && aok && info.Uses[si] != nil && info.Uses[si] == info.Uses[ai]
			// the variable is not reassigned between the two statements
			if same {
				obj := info.Uses[si]
				lo, hi := stored.Pos(), appended.Pos()
				if lo > hi {
					lo, hi = hi, lo
				}
				ast.Inspect(blk, func(m ast.Node) bool {
					if as, ok := m.(*ast.AssignStmt); ok && as.Pos() > lo && as.Pos() < hi {
						for _, l := range as.Lhs {
							if id, ok := ast.Unparen(l).(*ast.Ident); ok && (info.Uses[id] == obj || info.Defs[id] == obj) {
								same = false
							}
						}
					}
					return true
				})
			}
			c.Check(same, rule, construct, stored.Pos(), "Topic.%s stores %s in events but appends %s to sorted: the two indexes must hold the same object — updateEvent changes the one it finds through events, the level list keeps the other at its old level (a recovered alert stays listed at CRITICAL, the topic's level never drops, after a restart the restored levels are frozen)", f.Decl.Name.Name, types.ExprString(stored), types.ExprString(appended))
			return true
		})
	}
	c.Floor(rule, "blocks that fill both events and sorted", n, 2)
}

// c16TickerWiring (seed C16-13-r5): two boolean options of the query node stand next to each other — align() (the tick schedule
// is truncated to `every`) and alignGroup() (the GROUP BY time() offset) — and each has exactly one consumer in the runtime
// constructors: newTimeTicker(every, align) and Query.AlignGroup().
func c16TickerWiring(c *core.Ctx, root *packages.Package) {
	c.Rule("C16.wiring", "A7 (argument roles): every newTimeTicker call of the runtime constructors gets (<node>.Every, <node>.AlignFlag) of one and the same pipeline node, every newCronTicker call <node>.Cron, and Query.AlignGroup() is called exactly under `if <node>.AlignGroupFlag`: align() and alignGroup() are same-typed neighbours, exchanged they compile and shift every range of a task that sets only one of them")
	info := root.TypesInfo
	fieldOfNode := func(e ast.Expr) (types.Object, string) {
		sel, ok := ast.Unparen(e).(*ast.SelectorExpr)
		if !ok {
			return nil, ""
		}
		s, ok := info.Selections[sel]
		if !ok || s.Kind() != types.FieldVal {
			return nil, ""
		}
		n := core.NamedOf(s.Recv())
		if n == nil || n.Obj().Pkg() == nil || !strings.HasSuffix(n.Obj().Pkg().Path(), "/pipeline") {
			return nil, ""
		}
		if id, ok := ast.Unparen(sel.X).(*ast.Ident); ok {
			return info.Uses[id], sel.Sel.Name
		}
		return nil, sel.Sel.Name
	}
	nTick, nCron, nGroup := 0, 0, 0
	for _, f := range core.AllFuncs(root) {
		name := f.Decl.Name.Name
		// calls
		k := 0
		ast.Inspect(f.Decl.Body, func(nd ast.Node) bool {
			switch x := nd.(type) {
			case *ast.CallExpr:
				cal := core.Callee(info, x)
				if cal == nil || cal.Pkg() != root.Types {
					return true
				}
				switch cal.Name() {
				case "newTimeTicker":
					if len(x.Args) != 2 {
						return true
					}
					nTick++
					k++
					c.Analysed(f)
					o0, f0 := fieldOfNode(x.Args[0])
					o1, f1 := fieldOfNode(x.Args[1])
					c.Check(f0 == "Every" && f1 == "AlignFlag" && o0 != nil && o0 == o1, "C16.wiring", fmt.Sprintf("%s#newTimeTicker%d", name, k), x.Pos(), "%s creates the periodic ticker from (%s, %s): it must get the node's Every and AlignFlag — with alignGroup()'s flag a task that asks for align() alone ticks unaligned and one that asks for alignGroup() alone gets a schedule it never asked for", name, types.ExprString(x.Args[0]), types.ExprString(x.Args[1]))
				case "newCronTicker":
					if len(x.Args) != 1 {
						return true
					}
					nCron++
					_, f0 := fieldOfNode(x.Args[0])
					c.Check(f0 == "Cron", "C16.wiring", fmt.Sprintf("%s#newCronTicker", name), x.Pos(), "%s creates the cron ticker from %s, not from the node's Cron", name, types.ExprString(x.Args[0]))
				}
			case *ast.IfStmt:
				// if <node>.XFlag { <q>.AlignGroup() }
				l := an.Effective(x.Body.List)
				if len(l) != 1 || x.Else != nil {
					return true
				}
				es, ok := l[0].(*ast.ExprStmt)
				if !ok {
					return true
				}
				call, ok := es.X.(*ast.CallExpr)
				if !ok {
					return true
				}
				cal := core.Callee(info, call)
				if cal == nil || cal.Name() != "AlignGroup" || core.RecvTypeName(cal) != "Query" {
					return true
				}
				nGroup++
				c.Analysed(f)
				_, fl := fieldOfNode(x.Cond)
				c.Check(fl == "AlignGroupFlag", "C16.wiring", name+"#AlignGroup", x.Pos(), "%s aligns the GROUP BY time() offset under %s: it must depend on the node's AlignGroupFlag alone", name, types.ExprString(x.Cond))
			}
			return true
		})
	}
	// an AlignGroup call that is not under such an if
	for _, f := range core.AllFuncs(root) {
		ast.Inspect(f.Decl.Body, func(nd ast.Node) bool {
			if call, ok := nd.(*ast.CallExpr); ok {
				if cal := core.Callee(info, call); cal != nil && cal.Name() == "AlignGroup" && core.RecvTypeName(cal) == "Query" {
					nGroup--
				}
			}
			return true
		})
	}
	c.Check(nGroup == 0, "C16.wiring", "AlignGroup#guarded", token.NoPos, "a Query.AlignGroup() call of the root package does not stand alone under `if <node>.AlignGroupFlag` (%d unmatched)", -nGroup)
	c.Floor("C16.wiring", "newTimeTicker calls", nTick, 2)
	c.Floor("C16.wiring", "newCronTicker calls", nCron, 2)
}

// c20CacheKey (seed C20-14-r5): the auth service answers "who is this" from a cache in front of the user store. Real users
// and subscription users (named "_sub:"+token) share that cache, so the cache must be asked under exactly the name the store
// is asked under: a lookup by the raw token returns the cached real user of that name — ~subscriber:<admin's name> then
// authenticates as the admin without a password.
func c20CacheKey(c *core.Ctx) {
	c.Rule("C20.cachekey", "A3 (key agreement): in every method of the auth service that consults the user cache and the user store, the cache is read (userCache.Get) under the very variable the store is read under (users.Get): real users and subscription users share the cache, a lookup by another value (the raw subscription token) hands out another principal's cached user")
	sp := c.P.Pkg("services/auth")
	if sp == nil {
		c.Undecided("C20.cachekey", "anchor:services/auth", token.NoPos, "package not loaded")
		return
	}
	info := sp.TypesInfo
	n := 0
	for _, f := range core.AllFuncs(sp) {
		if core.RecvName(f.Decl) != "Service" {
			continue
		}
		var cacheKeys, storeKeys []ast.Expr
		ast.Inspect(f.Decl.Body, func(nd ast.Node) bool {
			call, ok := nd.(*ast.CallExpr)
			if !ok || len(call.Args) != 1 {
				return true
			}
			sel, ok := call.Fun.(*ast.SelectorExpr)
			if !ok || sel.Sel.Name != "Get" {
				return true
			}
			switch {
			case an.FieldSel(info, sel.X, "Service", "userCache"):
				cacheKeys = append(cacheKeys, call.Args[0])
			case an.FieldSel(info, sel.X, "Service", "users"):
				storeKeys = append(storeKeys, call.Args[0])
			}
			return true
		})
		if len(cacheKeys) == 0 || len(storeKeys) == 0 {
			continue
		}
		n++
		c.Analysed(f)
		okAll := true
		var sobj types.Object
		if id, ok := ast.Unparen(storeKeys[0]).(*ast.Ident); ok {
			sobj = info.Uses[id]
		}
		for _, k := range append(cacheKeys, storeKeys...) {
			id, ok := ast.Unparen(k).(*ast.Ident)
			if !ok || sobj == nil || info.Uses[id] != sobj {
				okAll = false
			}
		}
		// the key variable is assigned once
		if okAll {
			assigns := 0
			ast.Inspect(f.Decl.Body, func(nd ast.Node) bool {
				if as, ok := nd.(*ast.AssignStmt); ok {
					for _, l := range as.Lhs {
						if id, ok := ast.Unparen(l).(*ast.Ident); ok && (info.Defs[id] == sobj || info.Uses[id] == sobj) {
							assigns++
						}
					}
				}
				return true
			})
			if assigns > 1 {
				okAll = false
			}
		}
		c.Check(okAll, "C20.cachekey", "Service."+f.Decl.Name.Name, f.Decl.Pos(), "Service.%s reads the user cache under %s and the user store under %s: both must be read under one and the same variable, assigned once — otherwise the cache answers for another principal (a subscription token equal to a cached user's name authenticates as that user)", f.Decl.Name.Name, types.ExprString(cacheKeys[0]), types.ExprString(storeKeys[0]))
	}
	c.Floor("C20.cachekey", "methods that read both the user cache and the user store", n, 2)
}

// c17Handoff (seed C17-13-r5): the scheduler's main loop gives an occurrence to the task's worker with a non-blocking send
// (select { case ch <- it: … default: }); success must mean "the worker has it and runs it now". Only then does a busy worker
// leave the occurrence in the tree, where Release and a re-Schedule find and remove it. With a buffered channel the send
// succeeds while the worker is still busy: the occurrence is parked outside the tree and runs after Release has returned.
func c17Handoff(c *core.Ctx, sp *packages.Package) {
	c.Rule("C17.handoff", "A9 (ownership): every channel stored in TreeScheduler.workchans is made without capacity: the main loop's non-blocking send is a rendezvous, so an occurrence a busy worker cannot take stays in the tree where Release and Schedule remove it — one buffered slot parks the next occurrence outside the tree and it runs after the task was released")
	info := sp.TypesInfo
	n := 0
	for _, f := range core.AllFuncs(sp) {
		ast.Inspect(f.Decl.Body, func(nd ast.Node) bool {
			as, ok := nd.(*ast.AssignStmt)
			if !ok || len(as.Lhs) != 1 || len(as.Rhs) != 1 {
				return true
			}
			ix, ok := ast.Unparen(as.Lhs[0]).(*ast.IndexExpr)
			if !ok || !an.FieldSel(info, ix.X, "TreeScheduler", "workchans") {
				return true
			}
			n++
			c.Analysed(f)
			call, ok := ast.Unparen(as.Rhs[0]).(*ast.CallExpr)
			unbuffered := false
			if ok && core.IsBuiltin(info, call, "make") {
				switch len(call.Args) {
				case 1:
					unbuffered = true
				case 2:
					if tv, ok := info.Types[call.Args[1]]; ok && tv.Value != nil && constant.Sign(tv.Value) == 0 {
						unbuffered = true
					}
				}
			}
			c.Check(unbuffered, "C17.handoff", f.Decl.Name.Name+"#workchan", as.Pos(), "%s stores %s as a worker channel: it must be unbuffered — the main loop's non-blocking send then succeeds only when the worker takes the occurrence; with a buffer the next occurrence of a task whose worker is busy is parked outside the tree, Release cannot remove it and the executor runs a released task", f.Decl.Name.Name, types.ExprString(as.Rhs[0]))
			return true
		})
	}
	c.Floor("C17.handoff", "stores into TreeScheduler.workchans", n, 1)
}

// c15PrefixDelim (seed C15-14-r5): the keys of one index are found by a prefix scan. The prefix must end in the directory
// delimiter, put there AFTER any path cleaning (path.Join drops a trailing slash): otherwise the scan of index "id" also returns
// the entries of "id_by_owner" and every object is listed twice.
// c15ReverseFirst (seed C15-15-r5): a reverse listing is the reversed index, then paginated; reversing the selected page instead
// returns the forward page backwards.
func c15Rules5(c *core.Ctx, sp *packages.Package) {
	info := sp.TypesInfo
	c.Rule("C15.prefixdelim", "A3: IndexedStore.indexPrefix returns <something> + \"/\" on every path — the delimiter is appended outside any path.Join/Clean, which would drop it: a prefix without the trailing delimiter makes the scan of one index return the entries of every index whose name it is a prefix of (objects listed twice, pages shifted, unique keys colliding)")
	if fn := c.Need("C15.prefixdelim", "services/storage", "IndexedStore", "indexPrefix"); fn != nil {
		n, bad := 0, token.NoPos
		ast.Inspect(fn.Decl.Body, func(nd ast.Node) bool {
			ret, ok := nd.(*ast.ReturnStmt)
			if !ok || len(ret.Results) != 1 {
				return true
			}
			n++
			be, ok := ast.Unparen(ret.Results[0]).(*ast.BinaryExpr)
			good := false
			if ok && be.Op == token.ADD {
				if tv, ok := info.Types[be.Y]; ok && tv.Value != nil && tv.Value.Kind() == constant.String && constant.StringVal(tv.Value) == "/" {
					good = true
				}
			}
			if !good {
				bad = ret.Pos()
			}
			return true
		})
		c.Check(n > 0 && bad == token.NoPos, "C15.prefixdelim", "IndexedStore.indexPrefix", bad, "indexPrefix does not end its result with + \"/\" outside every other call: path.Join cleans a trailing slash away, the prefix of index \"id\" is then also a prefix of the keys of \"id_by_owner\" — a listing by id returns those entries too")
	}
	c.Rule("C15.reversefirst", "A2: IndexedStore.list reverses the full list of index entries before DoListFunc selects the page (offset and limit count from the end of the index), and never touches the order of the selected page afterwards")
	if fn := c.Need("C15.reversefirst", "services/storage", "IndexedStore", "list"); fn != nil {
		rev := an.ParamName(fn.Decl.Type, 5)
		var dl *ast.CallExpr
		ast.Inspect(fn.Decl.Body, func(nd ast.Node) bool {
			if call, ok := nd.(*ast.CallExpr); ok {
				if cal := core.Callee(info, call); cal != nil && cal.Name() == "DoListFunc" && dl == nil {
					dl = call
				}
			}
			return true
		})
		if dl == nil || rev == "" || len(dl.Args) < 1 {
			c.Undecided("C15.reversefirst", "IndexedStore.list", fn.Decl.Pos(), "DoListFunc call or the reverse parameter not found")
			return
		}
		listed, _ := ast.Unparen(dl.Args[0]).(*ast.Ident)
		// the statement under `if reverse` that swaps elements of the listed slice
		before, after := false, false
		var pageObj types.Object
		ast.Inspect(fn.Decl.Body, func(nd ast.Node) bool {
			if as, ok := nd.(*ast.AssignStmt); ok && len(as.Rhs) == 1 && ast.Unparen(as.Rhs[0]) == ast.Expr(dl) && len(as.Lhs) == 1 {
				if id, ok := as.Lhs[0].(*ast.Ident); ok {
					pageObj = info.Defs[id]
					if pageObj == nil {
						pageObj = info.Uses[id]
					}
				}
			}
			return true
		})
		ast.Inspect(fn.Decl.Body, func(nd ast.Node) bool {
			is, ok := nd.(*ast.IfStmt)
			if !ok {
				return true
			}
			if id, ok := ast.Unparen(is.Cond).(*ast.Ident); !ok || id.Name != rev {
				return true
			}
			ast.Inspect(is.Body, func(m ast.Node) bool {
				as, ok := m.(*ast.AssignStmt)
				if !ok || len(as.Lhs) != 2 {
					return true
				}
				ix, ok := ast.Unparen(as.Lhs[0]).(*ast.IndexExpr)
				if !ok {
					return true
				}
				id, ok := ast.Unparen(ix.X).(*ast.Ident)
				if !ok {
					return true
				}
				switch {
				case listed != nil && info.Uses[id] == info.Uses[listed] && is.Pos() < dl.Pos():
					before = true
				case pageObj != nil && info.Uses[id] == pageObj, is.Pos() > dl.Pos():
					after = true
				}
				return true
			})
			return true
		})
		c.Check(before && !after, "C15.reversefirst", "IndexedStore.list", dl.Pos(), "a reverse listing must reverse the whole index before DoListFunc takes the page (reversed before: %v, something swapped after: %v): reversing the selected page returns the first entries of the index backwards instead of its last ones — ReverseList(date, 0, 2) over r1…r5 gives [r2 r1] instead of [r5 r4]", before, after)
	}
}

// ruleDerivedGroupID (seed C18-14-r5): a message keeps the ID of its group next to the three things the ID is computed from
// (name, tags, dimensions). Every method of a message type that stores one of the three leaves, on every path to its exit, a
// groupID recomputed from all three after the last such store — directly (ToGroupID(recv.name, recv.tags, recv.dimensions)) or
// through a method of the same receiver that does. A shortcut that stores the dimensions alone gives a message whose
// Dimensions() say "by measurement" while its GroupID() does not: replayed batches of cpu and mem fall into one group.
func ruleDerivedGroupID(c *core.Ctx, ep *packages.Package, rule string) {
	c.Rule(rule, "A2 (must-pass over go/cfg): in every method of an edge message type that has a groupID field, each store to name, tags or dimensions (or a part of them) is followed on every path to the method's exit by groupID = ToGroupID(recv.name, recv.tags, recv.dimensions) or a call of a method of the same receiver that ends so: the cached group ID never lags behind what it is computed from")
	info := ep.TypesInfo
	// types with a groupID field
	hasGID := map[string]bool{}
	for _, nm := range ep.Types.Scope().Names() {
		if tn, ok := ep.Types.Scope().Lookup(nm).(*types.TypeName); ok {
			if st, ok := tn.Type().Underlying().(*types.Struct); ok {
				for i := 0; i < st.NumFields(); i++ {
					if st.Field(i).Name() == "groupID" {
						hasGID[nm] = true
					}
				}
			}
		}
	}
	type mkey struct{ recv, name string }
	methods := map[mkey]*core.Func{}
	for _, f := range core.AllFuncs(ep) {
		if r := core.RecvName(f.Decl); hasGID[r] {
			methods[mkey{r, f.Decl.Name.Name}] = f
		}
	}
	// analysis of one method: returns (touches, cleanAtExit)
	type res struct{ touches, clean bool }
	memo := map[mkey]*res{}
	var analyse func(k mkey, depth int) res
	analyse = func(k mkey, depth int) res {
		if r, ok := memo[k]; ok {
			return *r
		}
		f := methods[k]
		out := res{false, true}
		memo[k] = &out // recursion guard: assume clean
		if f == nil || f.Decl.Recv == nil || len(f.Decl.Recv.List[0].Names) == 0 || depth > 4 {
			return out
		}
		recv := info.Defs[f.Decl.Recv.List[0].Names[0]]
		isRecvField := func(e ast.Expr, names ...string) bool {
			// recv.f or recv.f.g…
			for {
				e = ast.Unparen(e)
				sel, ok := e.(*ast.SelectorExpr)
				if !ok {
					if ix, ok := e.(*ast.IndexExpr); ok {
						e = ix.X
						continue
					}
					return false
				}
				if id, ok := ast.Unparen(sel.X).(*ast.Ident); ok && info.Uses[id] == recv {
					for _, n := range names {
						if sel.Sel.Name == n {
							return true
						}
					}
					return false
				}
				e = sel.X
			}
		}
		recompute := func(e ast.Expr) bool {
			call, ok := ast.Unparen(e).(*ast.CallExpr)
			if !ok || len(call.Args) != 3 {
				return false
			}
			cal := core.Callee(info, call)
			if cal == nil || cal.Name() != "ToGroupID" {
				return false
			}
			return isRecvField(call.Args[0], "name") && isRecvField(call.Args[1], "tags") && isRecvField(call.Args[2], "dimensions")
		}
		g := cfg.New(f.Decl.Body, func(*ast.CallExpr) bool { return true })
		// effect of a node on the state: +1 dirty, -1 clean, 0 none (in source order inside the node)
		effects := func(n ast.Node) []int {
			var ev []struct {
				pos token.Pos
				e   int
			}
			ast.Inspect(n, func(m ast.Node) bool {
				switch x := m.(type) {
				case *ast.FuncLit:
					return false
				case *ast.AssignStmt:
					for i, l := range x.Lhs {
						if isRecvField(l, "name", "tags", "dimensions") {
							ev = append(ev, struct {
								pos token.Pos
								e   int
							}{x.End(), +1})
						}
						if isRecvField(l, "groupID") && i < len(x.Rhs) && recompute(x.Rhs[i]) {
							ev = append(ev, struct {
								pos token.Pos
								e   int
							}{x.End(), -1})
						}
					}
				case *ast.CallExpr:
					if sel, ok := x.Fun.(*ast.SelectorExpr); ok {
						if id, ok := ast.Unparen(sel.X).(*ast.Ident); ok && info.Uses[id] == recv {
							if mk := (mkey{k.recv, sel.Sel.Name}); methods[mk] != nil && mk != k {
								r := analyse(mk, depth+1)
								if r.touches {
									e := +1
									if r.clean {
										e = -1
									}
									ev = append(ev, struct {
										pos token.Pos
										e   int
									}{x.End(), e})
								}
							}
						}
					}
				}
				return true
			})
			sort.Slice(ev, func(i, j int) bool { return ev[i].pos < ev[j].pos })
			var o []int
			for _, e := range ev {
				o = append(o, e.e)
			}
			return o
		}
		dirtyIn := make([]bool, len(g.Blocks))
		reached := make([]bool, len(g.Blocks))
		if len(g.Blocks) == 0 {
			return out
		}
		reached[0] = true
		work := []*cfg.Block{g.Blocks[0]}
		exitDirty := false
		for steps := 0; len(work) > 0 && steps < 10000; steps++ {
			b := work[0]
			work = work[1:]
			d := dirtyIn[b.Index]
			for _, n := range b.Nodes {
				for _, e := range effects(n) {
					out.touches = true
					d = e > 0
				}
			}
			if len(b.Succs) == 0 && d {
				exitDirty = true
			}
			for _, s := range b.Succs {
				nd := dirtyIn[s.Index] || d
				if !reached[s.Index] || nd != dirtyIn[s.Index] {
					reached[s.Index] = true
					dirtyIn[s.Index] = nd
					work = append(work, s)
				}
			}
		}
		out.clean = !exitDirty
		return out
	}
	n := 0
	var keys []mkey
	for k := range methods {
		keys = append(keys, k)
	}
	sort.Slice(keys, func(i, j int) bool {
		if keys[i].recv != keys[j].recv {
			return keys[i].recv < keys[j].recv
		}
		return keys[i].name < keys[j].name
	})
	for _, k := range keys {
		r := analyse(k, 0)
		if !r.touches {
			continue
		}
		n++
		c.Analysed(methods[k])
		c.Check(r.clean, rule, k.recv+"."+k.name, methods[k].Decl.Pos(), "%s.%s stores the name, the tags or the dimensions of the message and reaches its exit on some path without recomputing groupID from all three afterwards: GroupID() and GroupInfo().ID then describe the old value — e.g. a replayed batch with ByName dimensions keeps the ID computed without the measurement, and batches of different measurements with equal tags share one group downstream", k.recv, k.name)
	}
	c.Floor(rule, "message methods that store name, tags or dimensions", n, 6)
}

// c02BodyIntact (seed C02-15-r5): the points of a write are the request body, read once by the write handler. Everything the
// HTTP service runs before it (authentication, logging, routing) must leave the body alone: http.Request.FormValue and its
// siblings parse — and consume — the body of a POST with a form content type (curl's default for -d), the write handler then
// reads nothing, parses zero points and acknowledges the write with 204.
func c02BodyIntact(c *core.Ctx) {
	c.Rule("C02.bodyintact", "A6 (who may call): no function of services/httpd calls http.Request.FormValue, PostFormValue, ParseForm, ParseMultipartForm, FormFile or MultipartReader — they consume the body of a form-typed POST before the write handler reads the points from it (query parameters are read with URL.Query()); the request body is read only by the write handlers")
	sp := c.P.Pkg("services/httpd")
	if sp == nil {
		c.Undecided("C02.bodyintact", "anchor:services/httpd", token.NoPos, "package not loaded")
		return
	}
	info := sp.TypesInfo
	forbidden := map[string]bool{"FormValue": true, "PostFormValue": true, "ParseForm": true, "ParseMultipartForm": true, "FormFile": true, "MultipartReader": true}
	nFuncs, nQuery := 0, 0
	for _, f := range core.AllFuncs(sp) {
		nFuncs++
		name := f.Decl.Name.Name
		if r := core.RecvName(f.Decl); r != "" {
			name = r + "." + name
		}
		bad := token.NoPos
		what := ""
		ast.Inspect(f.Decl.Body, func(nd ast.Node) bool {
			call, ok := nd.(*ast.CallExpr)
			if !ok {
				return true
			}
			cal := core.Callee(info, call)
			if cal == nil || cal.Pkg() == nil {
				return true
			}
			if cal.Pkg().Path() == "net/http" && core.RecvTypeName(cal) == "Request" && forbidden[cal.Name()] {
				bad, what = call.Pos(), cal.Name()
			}
			if cal.Pkg().Path() == "net/url" && cal.Name() == "Query" {
				nQuery++
			}
			return true
		})
		if bad != token.NoPos {
			c.Analysed(f)
			c.Fail("C02.bodyintact", name, bad, "%s calls Request.%s, which parses and consumes the body of a POST with a form content type: a write sent with curl -d and credentials in the URL is authenticated, then read as empty — answered 204 with none of its points delivered to any task", name, what)
		}
	}
	c.Ok("C02.bodyintact", "services/httpd", fmt.Sprintf("%d functions", nFuncs))
	c.Floor("C02.bodyintact", "functions of services/httpd", nFuncs, 40)
	c.Floor("C02.bodyintact", "URL.Query() calls (the idiom the rule protects)", nQuery, 3)
}

// c05SizeHint (seed C05-13-r5): a batch's size hint is a capacity: BatchBuffer.BeginBatch and groupBy do
// make([]BatchPointMessage, 0, SizeHint()). A negative hint is a run-time panic (makeslice: cap out of range) in the consumer —
// in the reader goroutines of join and union outside every recover, so the daemon ends. By induction over the pipeline the
// hint is non-negative if every value given to SetSizeHint and to NewBeginBatchMessage's sizeHint is: a constant >= 0, a len or
// cap, another message's SizeHint(), a sum of such, or X - c under a test that establishes X >= c on every path.
func c05SizeHint(c *core.Ctx) {
	c.Rule("C05.sizehint", "A4 (guard provenance, inductive invariant SizeHint() >= 0): every argument of SetSizeHint and every sizeHint argument of NewBeginBatchMessage is provably non-negative — a constant, len/cap, another SizeHint(), a sum of those, or X − c behind a test that gives X >= c on every path (conditions taken apart at !, && and ||): the consumers allocate make(…, 0, SizeHint()), a negative hint panics in them, for join/union in a goroutine no recover covers")
	n := 0
	for _, pkg := range c.P.ModPkgs {
		info := pkg.TypesInfo
		for _, f := range core.AllFuncs(pkg) {
			name := f.Decl.Name.Name
			if r := core.RecvName(f.Decl); r != "" {
				name = r + "." + name
			}
			k := 0
			ast.Inspect(f.Decl.Body, func(nd ast.Node) bool {
				call, ok := nd.(*ast.CallExpr)
				if !ok {
					return true
				}
				var arg ast.Expr
				if sel, ok := call.Fun.(*ast.SelectorExpr); ok && sel.Sel.Name == "SetSizeHint" && len(call.Args) == 1 {
					arg = call.Args[0]
				} else if cal := core.Callee(info, call); cal != nil && cal.Name() == "NewBeginBatchMessage" && len(call.Args) == 5 {
					arg = call.Args[4]
				}
				if arg == nil {
					return true
				}
				n++
				k++
				c.Analysed(f)
				body, _ := enclosingBody(f.Decl, call)
				if body == nil {
					body = f.Decl.Body
				}
				var nonNeg func(e ast.Expr, depth int) bool
				nonNeg = func(e ast.Expr, depth int) bool {
					e = ast.Unparen(e)
					if depth > 4 {
						return false
					}
					if tv, ok := info.Types[e]; ok && tv.Value != nil {
						return constant.Sign(tv.Value) >= 0
					}
					switch x := e.(type) {
					case *ast.CallExpr:
						if core.IsBuiltin(info, x, "len") || core.IsBuiltin(info, x, "cap") {
							return true
						}
						if sel, ok := x.Fun.(*ast.SelectorExpr); ok && sel.Sel.Name == "SizeHint" && len(x.Args) == 0 {
							return true
						}
						// int(<non-negative>)
						if tv, ok := info.Types[x.Fun]; ok && tv.IsType() && len(x.Args) == 1 {
							if b, ok := info.TypeOf(x.Args[0]).Underlying().(*types.Basic); ok && b.Info()&types.IsUnsigned != 0 {
								return false // may wrap
							}
							return nonNeg(x.Args[0], depth+1)
						}
					case *ast.Ident:
						obj := info.Uses[x]
						if obj == nil {
							return false
						}
						// every definition of the local is non-negative, or a test establishes it
						text := x.Name
						if guardedBy(body, call, text, func(cond ast.Expr, branch bool) bool { return impliesBound(info, cond, branch, text, 0, false) }) {
							return true
						}
						defs, okAll := 0, true
						ast.Inspect(f.Decl.Body, func(m ast.Node) bool {
							if as, ok := m.(*ast.AssignStmt); ok && len(as.Lhs) == len(as.Rhs) {
								for i, l := range as.Lhs {
									if id, ok := ast.Unparen(l).(*ast.Ident); ok && (info.Defs[id] == obj || info.Uses[id] == obj) {
										defs++
										if as.Tok != token.DEFINE && as.Tok != token.ASSIGN || !nonNeg(as.Rhs[i], depth+1) {
											okAll = false
										}
									}
								}
							}
							if inc, ok := m.(*ast.IncDecStmt); ok && inc.Tok == token.DEC {
								if id, ok := ast.Unparen(inc.X).(*ast.Ident); ok && info.Uses[id] == obj {
									okAll = false
								}
							}
							return true
						})
						return defs > 0 && okAll
					case *ast.BinaryExpr:
						switch x.Op {
						case token.ADD, token.MUL:
							return nonNeg(x.X, depth+1) && nonNeg(x.Y, depth+1)
						case token.SUB:
							tv, ok := info.Types[x.Y]
							if !ok || tv.Value == nil {
								return false
							}
							cv, exact := constant.Int64Val(constant.ToInt(tv.Value))
							if !exact {
								return false
							}
							if cv <= 0 {
								return nonNeg(x.X, depth+1)
							}
							text := types.ExprString(ast.Unparen(x.X))
							return guardedBy(body, call, text, func(cond ast.Expr, branch bool) bool { return impliesBound(info, cond, branch, text, cv, false) })
						}
					}
					return false
				}
				c.Check(nonNeg(arg, 0), "C05.sizehint", fmt.Sprintf("%s#hint%d", name, k), call.Pos(), "%s sets a batch's size hint to %s, which nothing on the way proves non-negative: the next node that buffers the batch does make(…, 0, SizeHint()) and panics (makeslice: cap out of range) — behind where/eval/flatten the hint is 0, so a valid batch kills the task, and in front of a join or union the panic is in a reader goroutine outside every recover and ends the daemon", name, types.ExprString(arg))
				return true
			})
		}
	}
	c.Floor("C05.sizehint", "size hints set", n, 12)
}

// c05WalkProgress (seed C05-15-r5): a loop that walks down a tree by switching on the type (or value) of its cursor ends only
// if every arm of the switch moves the cursor, leaves the loop or returns — including the arm for "anything else": a switch
// without a default, or with a default that does nothing, spins for good on the first node kind nobody thought of
// (`stream()|from()`: the chain starts with a call, not an identifier; the request handler's goroutine runs at 100% for ever).
// c05RespNonBlock (seed C05-14-r5): the UDF server's single reader goroutine hands the answers to requests (info, init,
// snapshot, restore) to one-slot channels that are read only while a request is pending. That send must not block: a UDF that
// answers twice, or unasked, would stop the reader — no data, no keepalive, and Stop() waits for the reader for ever.
func c05Rules5(c *core.Ctx) {
	c.Rule("C05.walkprogress", "A2: in every loop whose body is one switch on the loop's cursor variable, every arm — and the default, which must exist — assigns the cursor, leaves the loop (return, labelled break, or break when the loop is not the innermost breakable statement) or ends in continue after assigning: no arm leaves the cursor where it was")
	n := 0
	for _, pkg := range c.P.ModPkgs {
		info := pkg.TypesInfo
		for _, f := range core.AllFuncs(pkg) {
			name := f.Decl.Name.Name
			if r := core.RecvName(f.Decl); r != "" {
				name = r + "." + name
			}
			// labels of for statements
			labels := map[*ast.ForStmt]string{}
			ast.Inspect(f.Decl.Body, func(nd ast.Node) bool {
				if ls, ok := nd.(*ast.LabeledStmt); ok {
					if fs, ok := ls.Stmt.(*ast.ForStmt); ok {
						labels[fs] = ls.Label.Name
					}
				}
				return true
			})
			k := 0
			ast.Inspect(f.Decl.Body, func(nd ast.Node) bool {
				fs, ok := nd.(*ast.ForStmt)
				if !ok || fs.Post != nil || fs.Init != nil {
					return true
				}
				body := an.Effective(fs.Body.List)
				if len(body) != 1 {
					return true
				}
				var cursor types.Object
				var clauses []*ast.CaseClause
				switch sw := body[0].(type) {
				case *ast.TypeSwitchStmt:
					if sw.Init != nil {
						return true
					}
					var x ast.Expr
					switch a := sw.Assign.(type) {
					case *ast.AssignStmt:
						if ta, ok := ast.Unparen(a.Rhs[0]).(*ast.TypeAssertExpr); ok {
							x = ta.X
						}
					case *ast.ExprStmt:
						if ta, ok := ast.Unparen(a.X).(*ast.TypeAssertExpr); ok {
							x = ta.X
						}
					}
					if id, ok := ast.Unparen(x).(*ast.Ident); ok {
						cursor = info.Uses[id]
					}
					for _, s := range sw.Body.List {
						clauses = append(clauses, s.(*ast.CaseClause))
					}
				case *ast.SwitchStmt:
					if sw.Init != nil {
						return true // the value switched on is produced anew in every round (switch r := l.next(); r)
					}
					if id, ok := ast.Unparen(sw.Tag).(*ast.Ident); ok && sw.Tag != nil {
						cursor = info.Uses[id]
					}
					for _, s := range sw.Body.List {
						clauses = append(clauses, s.(*ast.CaseClause))
					}
				default:
					return true
				}
				if cursor == nil {
					return true
				}
				// the loop's own condition, if any, is about the cursor too (or there is none)
				if fs.Cond != nil {
					mentions := false
					ast.Inspect(fs.Cond, func(m ast.Node) bool {
						if id, ok := m.(*ast.Ident); ok && info.Uses[id] == cursor {
							mentions = true
						}
						return true
					})
					if !mentions {
						return true
					}
				}
				n++
				k++
				c.Analysed(f)
				construct := fmt.Sprintf("%s#walk%d", name, k)
				hasDefault := false
				bad := ""
				for _, cl := range clauses {
					if cl.List == nil {
						hasDefault = true
					}
					progress := false
					ast.Inspect(cl, func(m ast.Node) bool {
						switch x := m.(type) {
						case *ast.FuncLit:
							return false
						case *ast.ReturnStmt:
							progress = true
						case *ast.BranchStmt:
							if x.Tok == token.BREAK && x.Label != nil && x.Label.Name == labels[fs] {
								progress = true
							}
							if x.Tok == token.GOTO {
								progress = true
							}
						case *ast.AssignStmt:
							for _, l := range x.Lhs {
								if id, ok := ast.Unparen(l).(*ast.Ident); ok && info.Uses[id] == cursor {
									progress = true
								}
							}
						case *ast.CallExpr:
							if core.IsBuiltin(info, x, "panic") {
								progress = true
							}
						}
						return true
					})
					if !progress {
						what := "default"
						if cl.List != nil {
							what = "case " + types.ExprString(cl.List[0])
						}
						bad = "the arm `" + what + "` neither moves the cursor nor leaves the loop"
					}
				}
				if !hasDefault && bad == "" {
					bad = "the switch has no default: a cursor of any other kind is looked at again and again"
				}
				c.Check(bad == "", "C05.walkprogress", construct, fs.Pos(), "%s walks with a loop around a switch on its cursor %s, and %s: the loop never ends on such a value — for taskTypeFromProgram a script whose first chain starts with a call (`stream()|from()`) keeps the request handler's goroutine spinning for good, and every such request adds one", name, cursor.Name(), bad)
				return true
			})
		}
	}
	c.Floor("C05.walkprogress", "cursor loops around a switch", n, 2)

	c.Rule("C05.udf.respnonblock", "A2: udf.Server.doResponse hands an answer to its one-slot channel in a select that has a default arm: the single reader goroutine never blocks on a channel that is read only while a request is pending (a UDF that answers twice or unasked would stop the reader, the keepalive and every later Stop)")
	if fn := c.Need("C05.udf.respnonblock", "udf", "Server", "doResponse"); fn != nil {
		sends, guarded := 0, 0
		ast.Inspect(fn.Decl.Body, func(nd ast.Node) bool {
			switch x := nd.(type) {
			case *ast.SelectStmt:
				hasSend, hasDefault := false, false
				for _, cc := range x.Body.List {
					cl := cc.(*ast.CommClause)
					if cl.Comm == nil {
						hasDefault = true
					} else if _, ok := cl.Comm.(*ast.SendStmt); ok {
						hasSend = true
					}
				}
				if hasSend {
					sends++
					if hasDefault {
						guarded++
					}
				}
				return false
			case *ast.SendStmt:
				sends++
			}
			return true
		})
		c.Check(sends > 0 && sends == guarded, "C05.udf.respnonblock", "Server.doResponse", fn.Decl.Pos(), "doResponse sends the answer on its response channel without a default arm (%d sends, %d in a select with default): the channel has one slot and is read only while a request is pending, so a second or unrequested answer of that kind blocks the server's only reader goroutine — nothing the UDF sends afterwards is read, the keepalive starves and Stop() waits for the reader for ever", sends, guarded)
	}
}

// c07QueueHandoff (seed C07-13-r5): InfluxDBOutNode.stopOut flushes and then aborts its write buffer. The flush covers what
// writeBuffer.run has taken from the queue; an entry still sitting in the queue channel is seen by nobody — writeAll only looks
// at the buffer, abort makes run return. The queue is therefore a rendezvous: when enqueue returns, run has the entry.
func c07QueueHandoff(c *core.Ctx, root *packages.Package) {
	c.Rule("C07.queue", "A9 (ownership): the channel stored in writeBuffer.queue is made without capacity: enqueue returns only when run has taken the entry, so the flush of a graceful stop covers every point the node accepted — entries parked in a buffered queue are neither written by the final flush nor counted as write errors")
	info := root.TypesInfo
	n := 0
	for _, f := range core.AllFuncs(root) {
		ast.Inspect(f.Decl.Body, func(nd ast.Node) bool {
			var val ast.Expr
			switch x := nd.(type) {
			case *ast.CompositeLit:
				if !core.TypeIs(info.TypeOf(x), core.ModPath(""), "writeBuffer") {
					return true
				}
				for _, el := range x.Elts {
					if kv, ok := el.(*ast.KeyValueExpr); ok {
						if id, ok := kv.Key.(*ast.Ident); ok && id.Name == "queue" {
							val = kv.Value
						}
					}
				}
			case *ast.AssignStmt:
				for i, l := range x.Lhs {
					if an.FieldSel(info, l, "writeBuffer", "queue") && i < len(x.Rhs) {
						val = x.Rhs[i]
					}
				}
			}
			if val == nil {
				return true
			}
			n++
			c.Analysed(f)
			call, ok := ast.Unparen(val).(*ast.CallExpr)
			unbuffered := false
			if ok && core.IsBuiltin(info, call, "make") {
				switch len(call.Args) {
				case 1:
					unbuffered = true
				case 2:
					if tv, ok := info.Types[call.Args[1]]; ok && tv.Value != nil && constant.Sign(tv.Value) == 0 {
						unbuffered = true
					}
				}
			}
			c.Check(unbuffered, "C07.queue", f.Decl.Name.Name+"#queue", val.Pos(), "%s stores %s as the write buffer's queue: it must be unbuffered — with a buffer the node's consumer finishes while entries are still parked in the channel, the final flush writes only what run had taken, abort ends run, and the parked points of a cleanly stopped task are never written", f.Decl.Name.Name, types.ExprString(val))
			return true
		})
	}
	c.Floor("C07.queue", "stores into writeBuffer.queue", n, 1)
}

// c13RefEscape (seed C13-13-r5): a reference is written between double quotes with some characters escaped by a backslash, and
// read back by a lexer and a constructor that each undo escapes. The three sets must be one set: a character the formatter
// escapes but the readers leave alone comes back with its backslash — "host\name" is written "host\\name", read as a different
// field, and doubles again on every pass.
func c13RefEscape(c *core.Ctx) {
	c.Rule("C13.refescape", "A11 (writer/reader agreement): the set of characters ReferenceNode.Format puts a backslash in front of equals the set lexReference skips after a backslash and the set newReference removes the backslash from — read from the comparisons in the three functions")
	ap := c.P.Pkg("tick/ast")
	if ap == nil {
		c.Undecided("C13.refescape", "anchor:tick/ast", token.NoPos, "package not loaded")
		return
	}
	info := ap.TypesInfo
	charOf := func(e ast.Expr) (string, bool) {
		tv, ok := info.Types[e]
		if !ok || tv.Value == nil {
			return "", false
		}
		if v, exact := constant.Int64Val(constant.ToInt(tv.Value)); exact && v > 0 && v < 0x110000 {
			return string(rune(v)), true
		}
		return "", false
	}
	// characters X is compared with (==) in cond, through ||
	var eqSet func(cond ast.Expr, isX func(ast.Expr) bool, out map[string]bool) bool
	eqSet = func(cond ast.Expr, isX func(ast.Expr) bool, out map[string]bool) bool {
		cond = ast.Unparen(cond)
		be, ok := cond.(*ast.BinaryExpr)
		if !ok {
			return false
		}
		switch be.Op {
		case token.LOR:
			return eqSet(be.X, isX, out) && eqSet(be.Y, isX, out)
		case token.EQL:
			if isX(be.X) {
				if ch, ok := charOf(be.Y); ok {
					out[ch] = true
					return true
				}
			}
			if isX(be.Y) {
				if ch, ok := charOf(be.X); ok {
					out[ch] = true
					return true
				}
			}
		}
		return false
	}
	show := func(m map[string]bool) string { return strings.Join(an.SortedKeys(m), " ") }
	// writer
	writer := map[string]bool{}
	wOK := false
	if fn := c.Need("C13.refescape", "tick/ast", "ReferenceNode", "Format"); fn != nil {
		ast.Inspect(fn.Decl.Body, func(nd ast.Node) bool {
			rs, ok := nd.(*ast.RangeStmt)
			if !ok || rs.Value == nil {
				return true
			}
			vid, ok := rs.Value.(*ast.Ident)
			if !ok {
				return true
			}
			vobj := info.Defs[vid]
			ast.Inspect(rs.Body, func(m ast.Node) bool {
				is, ok := m.(*ast.IfStmt)
				if !ok {
					return true
				}
				// the body writes a backslash
				writes := false
				ast.Inspect(is.Body, func(x ast.Node) bool {
					if call, ok := x.(*ast.CallExpr); ok && len(call.Args) == 1 {
						if ch, ok := charOf(call.Args[0]); ok && ch == "\\" {
							writes = true
						}
					}
					return true
				})
				if writes {
					wOK = eqSet(is.Cond, func(e ast.Expr) bool {
						id, ok := ast.Unparen(e).(*ast.Ident)
						return ok && info.Uses[id] == vobj
					}, writer)
				}
				return true
			})
			return true
		})
	}
	// the lexer: case '\\': if l.peek() == C { l.next() }
	lexer := map[string]bool{}
	lOK := false
	if fn := c.Need("C13.refescape", "tick/ast", "", "lexReference"); fn != nil {
		ast.Inspect(fn.Decl.Body, func(nd ast.Node) bool {
			cl, ok := nd.(*ast.CaseClause)
			if !ok || len(cl.List) != 1 {
				return true
			}
			if ch, ok := charOf(cl.List[0]); !ok || ch != "\\" {
				return true
			}
			for _, st := range cl.Body {
				if is, ok := st.(*ast.IfStmt); ok {
					lOK = eqSet(is.Cond, func(e ast.Expr) bool {
						call, ok := ast.Unparen(e).(*ast.CallExpr)
						if !ok {
							return false
						}
						sel, ok := call.Fun.(*ast.SelectorExpr)
						return ok && sel.Sel.Name == "peek"
					}, lexer)
				}
			}
			return true
		})
	}
	// the constructor: X[i] == '\\' && X[i+1] == C
	reader := map[string]bool{}
	rOK := false
	if fn := c.Need("C13.refescape", "tick/ast", "", "newReference"); fn != nil {
		ast.Inspect(fn.Decl.Body, func(nd ast.Node) bool {
			is, ok := nd.(*ast.IfStmt)
			if !ok {
				return true
			}
			be, ok := ast.Unparen(is.Cond).(*ast.BinaryExpr)
			if !ok || be.Op != token.LAND {
				return true
			}
			l, ok := ast.Unparen(be.X).(*ast.BinaryExpr)
			if !ok || l.Op != token.EQL {
				return true
			}
			if ch, ok := charOf(l.Y); !ok || ch != "\\" {
				return true
			}
			rOK = eqSet(be.Y, func(e ast.Expr) bool {
				_, ok := ast.Unparen(e).(*ast.IndexExpr)
				return ok
			}, reader)
			return true
		})
	}
	if !wOK || !lOK || !rOK {
		c.Undecided("C13.refescape", "ReferenceNode#escape-sets", token.NoPos, "the escape sets could not be read (formatter %v, lexer %v, constructor %v)", wOK, lOK, rOK)
		return
	}
	c.Check(show(writer) == show(lexer) && show(writer) == show(reader), "C13.refescape", "ReferenceNode#escape-sets", token.NoPos, "ReferenceNode.Format escapes [%s], lexReference skips [%s] after a backslash, newReference unescapes [%s]: a character escaped by one side only comes back with (or without) its backslash — the formatted script names another field, and formatting never becomes stable", show(writer), show(lexer), show(reader))
}

// c05GoDecode (F127, class): a goroutine that decodes what a peer sent runs outside the recover of the node that started it.
// Every `go` statement of the root package whose goroutine reaches, through calls inside the module, a decoder of external
// input (the InfluxDB client's Query calls, edge.ResultToBufferedBatches) has a deferred function that calls recover()
// unconditionally.
func c05GoDecode(c *core.Ctx, root *packages.Package) {
	c.Rule("C05.godecode", "A9a (call-graph reachability, depth 5): every goroutine started in the root package that reaches one of the project's own decoders of a server's answer — the InfluxDB client's Query/QueryFluxResponse (annotated CSV) and edge.ResultToBufferedBatches, where answers that panicked were shown (F127–F129); the line-protocol parser and encoding/json are not in the set, no input is known that makes them panic — starts with a deferred function whose recover() runs on every path: the goroutine is outside the recover of the node's own goroutine, a panic in it ends the daemon")
	info := root.TypesInfo
	isSink := func(f *types.Func) bool {
		if f == nil || f.Pkg() == nil {
			return false
		}
		pp, nm := f.Pkg().Path(), f.Name()
		switch {
		case strings.HasSuffix(pp, "kapacitor/influxdb") && (nm == "Query" || nm == "QueryFluxResponse" || nm == "QueryFlux"):
			return true
		case strings.HasSuffix(pp, "kapacitor/edge") && nm == "ResultToBufferedBatches":
			return true
		}
		return false
	}
	memo := map[*types.Func]int{} // 0 unknown, 1 reaches, 2 does not
	var reaches func(f *types.Func, depth int) bool
	reachesBody := func(pinfo *types.Info, body ast.Node, depth int) bool {
		hit := false
		ast.Inspect(body, func(nd ast.Node) bool {
			if hit {
				return false
			}
			if call, ok := nd.(*ast.CallExpr); ok {
				if cal := core.Callee(pinfo, call); cal != nil {
					if isSink(cal) || reaches(cal, depth+1) {
						hit = true
					}
				}
			}
			return true
		})
		return hit
	}
	reaches = func(f *types.Func, depth int) bool {
		if f == nil || f.Pkg() == nil || depth > 5 || !strings.HasPrefix(f.Pkg().Path(), core.Module) {
			return false
		}
		if m := memo[f]; m != 0 {
			return m == 1
		}
		memo[f] = 2
		d := declOfFunc(c.P, f)
		if d == nil || d.Decl.Body == nil {
			return false
		}
		if reachesBody(d.Pkg.TypesInfo, d.Decl.Body, depth) {
			memo[f] = 1
			return true
		}
		return false
	}
	n := 0
	for _, f := range core.AllFuncs(root) {
		name := f.Decl.Name.Name
		if r := core.RecvName(f.Decl); r != "" {
			name = r + "." + name
		}
		k := 0
		ast.Inspect(f.Decl.Body, func(nd ast.Node) bool {
			gs, ok := nd.(*ast.GoStmt)
			if !ok {
				return true
			}
			var body *ast.BlockStmt
			binfo := info
			if lit, ok := ast.Unparen(gs.Call.Fun).(*ast.FuncLit); ok {
				body = lit.Body
			} else if cal := core.Callee(info, gs.Call); cal != nil {
				if d := declOfFunc(c.P, cal); d != nil {
					body, binfo = d.Decl.Body, d.Pkg.TypesInfo
				}
			}
			if body == nil || !reachesBody(binfo, body, 0) {
				return true
			}
			n++
			k++
			c.Analysed(f)
			// a deferred function with an unconditional recover among the top-level statements of the goroutine
			okRec := false
			for _, st := range body.List {
				ds, ok := st.(*ast.DeferStmt)
				if !ok {
					continue
				}
				var db *ast.BlockStmt
				dinfo := binfo
				if lit, ok := ast.Unparen(ds.Call.Fun).(*ast.FuncLit); ok {
					db = lit.Body
				} else if cal := core.Callee(binfo, ds.Call); cal != nil {
					if d := declOfFunc(c.P, cal); d != nil {
						db, dinfo = d.Decl.Body, d.Pkg.TypesInfo
					}
				}
				if db == nil {
					continue
				}
				if uncond, _ := recoverPlacement(dinfo, db); uncond && !repanics(dinfo, db) {
					okRec = true
				}
			}
			c.Check(okRec, "C05.godecode", fmt.Sprintf("%s#go%d", name, k), gs.Pos(), "%s starts a goroutine that decodes what a peer sent (it reaches the InfluxDB client or the result decoder) without a deferred unconditional recover(): it runs outside the recover of the node's goroutine, so one answer the decoder cannot index ends the daemon instead of the task", name)
			return true
		})
	}
	c.Floor("C05.godecode", "goroutines of the root package that reach a decoder", n, 4)
}

// c05ParallelIndex (F128, F129; class): a decoder that walks one list and indexes another with the same position relies on
// the peer having sent both with the same length. In the packages that decode what a server sent (edge, influxdb), every
// B[i] inside `for i := range A` with B another slice than A needs one of: B made with len(A) in the same function; a test
// that compares len(B) with len(A) (or with i) and leaves — return, continue, break, or an error recorded and return — before
// the index is used; B an array. Otherwise a short row is an index out of range in a goroutine that decodes answers.
func c05ParallelIndex(c *core.Ctx) {
	c.Rule("C05.parallelindex", "A4 (guard provenance): in the decoders of a server's answers (packages edge and influxdb) every index B[i] under `for i := range A`, B not A, is covered by make(…, len(A)) for B in the same function, by a test of len(B) against len(A) or i that leaves before the use, or B is an array: a row, an annotation or a header shorter than its neighbour is an error of that answer, never an index out of range")
	n := 0
	for _, rel := range []string{"edge", "influxdb"} {
		pkg := c.P.Pkg(rel)
		if pkg == nil {
			continue
		}
		info := pkg.TypesInfo
		for _, f := range core.AllFuncs(pkg) {
			name := f.Decl.Name.Name
			if r := core.RecvName(f.Decl); r != "" {
				name = r + "." + name
			}
			// len facts established by leaving tests anywhere in the function: pairs (x, y) such that a test comparing len(x)
			// with len(y) — or with anything — leaves
			type guard struct {
				pos  token.Pos
				text string // text of the slice whose len is tested
				with string // what it is compared with
			}
			var guards []guard
			ast.Inspect(f.Decl.Body, func(nd ast.Node) bool {
				is, ok := nd.(*ast.IfStmt)
				if !ok {
					return true
				}
				// the body leaves
				l := an.Effective(is.Body.List)
				leaves := false
				if len(l) > 0 {
					switch x := l[len(l)-1].(type) {
					case *ast.ReturnStmt:
						leaves = true
					case *ast.BranchStmt:
						leaves = x.Tok == token.CONTINUE || x.Tok == token.BREAK || x.Tok == token.GOTO
					}
				}
				if !leaves {
					return true
				}
				var atoms func(e ast.Expr)
				atoms = func(e ast.Expr) {
					e = ast.Unparen(e)
					be, ok := e.(*ast.BinaryExpr)
					if !ok {
						return
					}
					if be.Op == token.LOR {
						atoms(be.X)
						atoms(be.Y)
						return
					}
					switch be.Op {
					case token.LSS, token.LEQ, token.GTR, token.GEQ, token.NEQ:
					default:
						return
					}
					lenOf := func(x ast.Expr) string {
						if call, ok := ast.Unparen(x).(*ast.CallExpr); ok && core.IsBuiltin(info, call, "len") && len(call.Args) == 1 {
							return types.ExprString(ast.Unparen(call.Args[0]))
						}
						return ""
					}
					if t := lenOf(be.X); t != "" {
						guards = append(guards, guard{is.Pos(), t, types.ExprString(ast.Unparen(be.Y))})
					}
					if t := lenOf(be.Y); t != "" {
						guards = append(guards, guard{is.Pos(), t, types.ExprString(ast.Unparen(be.X))})
					}
				}
				atoms(is.Cond)
				return true
			})
			madeWith := map[string]string{} // local slice → text of the len argument's operand
			ast.Inspect(f.Decl.Body, func(nd ast.Node) bool {
				as, ok := nd.(*ast.AssignStmt)
				if !ok || len(as.Lhs) != 1 || len(as.Rhs) != 1 {
					return true
				}
				madeLen := func(e ast.Expr) string {
					call, ok := ast.Unparen(e).(*ast.CallExpr)
					if !ok || !core.IsBuiltin(info, call, "make") || len(call.Args) < 2 {
						return ""
					}
					if lc, ok := ast.Unparen(call.Args[1]).(*ast.CallExpr); ok && core.IsBuiltin(info, lc, "len") && len(lc.Args) == 1 {
						return types.ExprString(ast.Unparen(lc.Args[0]))
					}
					return ""
				}
				if t := madeLen(as.Rhs[0]); t != "" {
					madeWith[types.ExprString(as.Lhs[0])] = t
				}
				// b := &T{Points: make(…, len(X))}
				lit := ast.Unparen(as.Rhs[0])
				if u, ok := lit.(*ast.UnaryExpr); ok && u.Op == token.AND {
					lit = u.X
				}
				if cl, ok := lit.(*ast.CompositeLit); ok {
					for _, el := range cl.Elts {
						if kv, ok := el.(*ast.KeyValueExpr); ok {
							if kid, ok := kv.Key.(*ast.Ident); ok {
								if t := madeLen(kv.Value); t != "" {
									madeWith[types.ExprString(as.Lhs[0])+"."+kid.Name] = t
								}
							}
						}
					}
				}
				return true
			})
			k := 0
			ast.Inspect(f.Decl.Body, func(nd ast.Node) bool {
				rs, ok := nd.(*ast.RangeStmt)
				if !ok || rs.Key == nil {
					return true
				}
				kid, ok := rs.Key.(*ast.Ident)
				if !ok || kid.Name == "_" {
					return true
				}
				kobj := info.Defs[kid]
				if kobj == nil {
					return true
				}
				if _, isMap := info.TypeOf(rs.X).Underlying().(*types.Map); isMap {
					return true
				}
				aText := types.ExprString(ast.Unparen(rs.X))
				seen := map[string]bool{}
				ast.Inspect(rs.Body, func(m ast.Node) bool {
					ix, ok := m.(*ast.IndexExpr)
					if !ok {
						return true
					}
					id, ok := ast.Unparen(ix.Index).(*ast.Ident)
					if !ok || info.Uses[id] != kobj {
						return true
					}
					bText := types.ExprString(ast.Unparen(ix.X))
					if bText == aText || seen[bText] {
						return true
					}
					switch info.TypeOf(ix.X).Underlying().(type) {
					case *types.Slice, *types.Basic:
					default:
						return true // map, array, pointer to array
					}
					seen[bText] = true
					n++
					k++
					c.Analysed(f)
					proved := madeWith[bText] == aText
					for _, g := range guards {
						if g.pos < ix.Pos() && g.text == bText && (g.with == "len("+aText+")" || g.with == kid.Name || strings.HasPrefix(g.with, "len(")) {
							proved = true
						}
					}
					// the ranged list itself was derived from B: A := B[lo:hi] or A made with len(B)
					if madeWith[aText] == bText {
						proved = true
					}
					c.Check(proved, "C05.parallelindex", fmt.Sprintf("%s#%s[%s]", name, bText, kid.Name), ix.Pos(), "%s indexes %s with the position of a walk over %s and nothing on the way compares their lengths: an answer in which %s is shorter (a row with fewer values than columns, an annotation shorter than the header) is an index out of range in the goroutine that decodes the server's answers", name, bText, aText, bText)
					return true
				})
				return true
			})
		}
	}
	c.Floor("C05.parallelindex", "parallel index sites in the decoders", n, 2)
}

// c05ScalarField (F128): what ResultToBufferedBatches stores as a field value is a scalar. A json.Number that no float64 holds
// (1e309) must not stay a json.Number (its kind is string: first()/last() build a string reducer and dereference nil), an
// array or object cell must not become a field (changeDetect compares field values with ==, which panics on a slice).
func c05ScalarField(c *core.Ctx) {
	c.Rule("C05.scalarfield", "A2: in edge.ResultToBufferedBatches the store of a cell into the fields of a point is preceded, on every path, by a switch on the dynamic type of the cell whose default arm leaves the function, and the error of json.Number.Float64 leads to a return: only float64, int64, uint64, string, bool and time.Time become field values")
	fn := c.Need("C05.scalarfield", "edge", "", "ResultToBufferedBatches")
	if fn == nil {
		return
	}
	ep := c.P.Pkg("edge")
	info := ep.TypesInfo
	// the store fields[c] = value
	var store *ast.AssignStmt
	var valObj types.Object
	ast.Inspect(fn.Decl.Body, func(nd ast.Node) bool {
		as, ok := nd.(*ast.AssignStmt)
		if !ok || len(as.Lhs) != 1 || len(as.Rhs) != 1 {
			return true
		}
		ix, ok := ast.Unparen(as.Lhs[0]).(*ast.IndexExpr)
		if !ok {
			return true
		}
		if n := core.NamedOf(info.TypeOf(ix.X)); n == nil || n.Obj().Name() != "Fields" {
			return true
		}
		if id, ok := ast.Unparen(as.Rhs[0]).(*ast.Ident); ok {
			store, valObj = as, info.Uses[id]
		}
		return true
	})
	if store == nil || valObj == nil {
		c.Undecided("C05.scalarfield", "ResultToBufferedBatches#store", fn.Decl.Pos(), "the store of a cell into the point's fields was not found")
		return
	}
	// a type switch on the value, before the store, in the same block, with a default that returns
	guarded := false
	ast.Inspect(fn.Decl.Body, func(nd ast.Node) bool {
		blk, ok := nd.(*ast.BlockStmt)
		if !ok {
			return true
		}
		si := -1
		for i, st := range blk.List {
			if st == ast.Stmt(store) {
				si = i
			}
		}
		if si < 0 {
			return true
		}
		for _, st := range blk.List[:si] {
			ts, ok := st.(*ast.TypeSwitchStmt)
			if !ok {
				continue
			}
			var x ast.Expr
			switch a := ts.Assign.(type) {
			case *ast.ExprStmt:
				if ta, ok := ast.Unparen(a.X).(*ast.TypeAssertExpr); ok {
					x = ta.X
				}
			case *ast.AssignStmt:
				if ta, ok := ast.Unparen(a.Rhs[0]).(*ast.TypeAssertExpr); ok {
					x = ta.X
				}
			}
			id, ok := ast.Unparen(x).(*ast.Ident)
			if !ok || info.Uses[id] != valObj {
				continue
			}
			for _, cc := range ts.Body.List {
				cl := cc.(*ast.CaseClause)
				if cl.List != nil {
					continue
				}
				l := an.Effective(cl.Body)
				if len(l) > 0 {
					if _, ok := l[len(l)-1].(*ast.ReturnStmt); ok {
						guarded = true
					}
				}
			}
		}
		return true
	})
	c.Check(guarded, "C05.scalarfield", "ResultToBufferedBatches#scalar", store.Pos(), "a cell of the server's answer becomes a field value without a switch on its dynamic type whose default leaves: an array or object cell reaches changeDetect's == (panic: comparing uncomparable type []interface {}), the task ends on one malformed answer")
	// Float64's error
	okNum, seen := false, false
	ast.Inspect(fn.Decl.Body, func(nd ast.Node) bool {
		as, ok := nd.(*ast.AssignStmt)
		if !ok || len(as.Lhs) != 2 || len(as.Rhs) != 1 {
			return true
		}
		call, ok := ast.Unparen(as.Rhs[0]).(*ast.CallExpr)
		if !ok {
			return true
		}
		if cal := core.Callee(info, call); cal == nil || cal.Name() != "Float64" || cal.Pkg() == nil || cal.Pkg().Path() != "encoding/json" {
			return true
		}
		seen = true
		eid, ok := as.Lhs[1].(*ast.Ident)
		if !ok {
			return true
		}
		eobj := info.Defs[eid]
		if eobj == nil {
			eobj = info.Uses[eid]
		}
		// if err != nil { return … }
		ast.Inspect(fn.Decl.Body, func(m ast.Node) bool {
			is, ok := m.(*ast.IfStmt)
			if !ok || is.Pos() < as.Pos() {
				return true
			}
			be, ok := ast.Unparen(is.Cond).(*ast.BinaryExpr)
			if !ok || be.Op != token.NEQ {
				return true
			}
			if id, ok := ast.Unparen(be.X).(*ast.Ident); ok && info.Uses[id] == eobj {
				l := an.Effective(is.Body.List)
				if len(l) > 0 {
					if _, ok := l[len(l)-1].(*ast.ReturnStmt); ok {
						okNum = true
					}
				}
			}
			return true
		})
		return true
	})
	c.Check(seen && okNum, "C05.scalarfield", "ResultToBufferedBatches#number", fn.Decl.Pos(), "a json.Number whose Float64() fails (1e309) is not refused: it stays a json.Number, whose kind is string — first() and last() build a string reducer for the field, every point fails to aggregate, and emitting the empty reducer dereferences nil: the task ends")
}

// c05Cron (F130): cronexpr.Parse accepts expressions its own Next cannot handle. (a) A field with a reversed range (22-2) parses
// to an empty list of values and Next indexes it: newCronTicker must find that out itself — one Next call under a deferred
// recover before it hands out a ticker. (b) Next answers the zero time when the schedule has no occurrence left: the ticker's
// loop must test for it before it computes how long to wait, a negative wait fires at once and the node queries without pause.
func c05Cron(c *core.Ctx, root *packages.Package, ruleA, ruleB string) {
	info := root.TypesInfo
	isNext := func(call *ast.CallExpr) bool {
		cal := core.Callee(info, call)
		return cal != nil && cal.Name() == "Next" && cal.Pkg() != nil && strings.HasSuffix(cal.Pkg().Path(), "cronexpr")
	}
	if ruleA != "" {
		c.Rule(ruleA, "A2: newCronTicker calls the parsed expression's Next once inside a function whose deferred function recovers unconditionally, and returns an error when it panicked, before it returns a ticker: an expression cronexpr.Parse accepts but Next cannot evaluate (a reversed range leaves a field without values) is refused when the task starts instead of ending the daemon from the ticker's goroutine at the first tick and at every restart")
		if fn := c.Need(ruleA, "", "", "newCronTicker"); fn != nil {
			probed := false
			ast.Inspect(fn.Decl.Body, func(nd ast.Node) bool {
				lit, ok := nd.(*ast.FuncLit)
				if !ok {
					return true
				}
				calls, rec := false, false
				for _, st := range lit.Body.List {
					if ds, ok := st.(*ast.DeferStmt); ok {
						if dl, ok := ast.Unparen(ds.Call.Fun).(*ast.FuncLit); ok {
							if uncond, _ := recoverPlacement(info, dl.Body); uncond && !repanics(info, dl.Body) {
								rec = true
							}
						}
					}
				}
				ast.Inspect(lit.Body, func(m ast.Node) bool {
					if call, ok := m.(*ast.CallExpr); ok && isNext(call) {
						calls = true
					}
					return true
				})
				if calls && rec {
					probed = true
				}
				return true
			})
			c.Check(probed, ruleA, "newCronTicker#probe", fn.Decl.Pos(), "newCronTicker hands out a ticker without having called Next under a recover: `0 22-2 * * *` parses, the task starts, and the first Next in the ticker's goroutine is an index out of range outside every recover — the daemon ends, and ends again at every restart while the task is enabled")
		}
	}
	if ruleB != "" {
		c.Rule(ruleB, "A2 (must-pass): in cronTicker.Start's loop the time returned by Next is tested with IsZero, and the loop left or parked, before it is used to compute the wait: a schedule without a further occurrence (0 0 30 2 *, an explicit year that is over) otherwise gives a negative wait that fires at once — the node queries InfluxDB back to back with bounds in year 1")
		if fn := c.Need(ruleB, "", "cronTicker", "Start"); fn != nil {
			good, seen := true, false
			ast.Inspect(fn.Decl.Body, func(nd ast.Node) bool {
				blk, ok := nd.(*ast.BlockStmt)
				if !ok {
					return true
				}
				for i, st := range blk.List {
					as, ok := st.(*ast.AssignStmt)
					if !ok || len(as.Lhs) != 1 || len(as.Rhs) != 1 {
						continue
					}
					call, ok := ast.Unparen(as.Rhs[0]).(*ast.CallExpr)
					if !ok || !isNext(call) {
						continue
					}
					id, ok := as.Lhs[0].(*ast.Ident)
					if !ok {
						continue
					}
					obj := info.Defs[id]
					if obj == nil {
						obj = info.Uses[id]
					}
					seen = true
					// the next statement that mentions the variable is `if next.IsZero() { … leave }`
					tested := false
					for _, nx := range blk.List[i+1:] {
						mentions := false
						ast.Inspect(nx, func(m ast.Node) bool {
							if mid, ok := m.(*ast.Ident); ok && info.Uses[mid] == obj {
								mentions = true
							}
							return true
						})
						if !mentions {
							continue
						}
						if is, ok := nx.(*ast.IfStmt); ok {
							if zc, ok := ast.Unparen(is.Cond).(*ast.CallExpr); ok {
								if sel, ok := zc.Fun.(*ast.SelectorExpr); ok && sel.Sel.Name == "IsZero" {
									if rid, ok := ast.Unparen(sel.X).(*ast.Ident); ok && info.Uses[rid] == obj {
										l := an.Effective(is.Body.List)
										if len(l) > 0 {
											switch x := l[len(l)-1].(type) {
											case *ast.ReturnStmt:
												tested = true
											case *ast.BranchStmt:
												tested = x.Tok == token.BREAK || x.Tok == token.CONTINUE
											}
										}
									}
								}
							}
						}
						break
					}
					if !tested {
						good = false
					}
				}
				return true
			})
			c.Check(seen && good, ruleB, "cronTicker.Start#no-occurrence", fn.Decl.Pos(), "cronTicker.Start uses the time returned by Next without testing it for the zero time first: when the schedule has no occurrence left the wait is negative, time.After fires at once and the loop ticks without pause — thousands of queries per second against InfluxDB with bounds in year 1")
		}
	}
}

// c07QueryCancel (F131): a batch node's stop closes n.closing and waits for doQuery to return. A request to the server that is
// made in doQuery's own frame cannot be left: while it is outstanding neither closing nor aborting is looked at, the default
// client has no timeout, and StopTask waits — holding the task master's lifecycle lock — for as long as the server stays silent.
func c07QueryCancel(c *core.Ctx, root *packages.Package) {
	c.Rule("C07.querycancel", "A2: in QueryNode.doQuery and FluxQueryNode.doQuery every request to the InfluxDB client (Query, QueryFluxResponse, QueryFlux) is made in a goroutine of its own, and doQuery waits for its answer in a select that also has arms for n.closing and n.aborting: stopping the node never waits for an answer that does not come")
	info := root.TypesInfo
	for _, recv := range []string{"QueryNode", "FluxQueryNode"} {
		fn := c.Need("C07.querycancel", "", recv, "doQuery")
		if fn == nil {
			continue
		}
		c.Analysed(fn)
		isReq := func(call *ast.CallExpr) bool {
			cal := core.Callee(info, call)
			if cal == nil || cal.Pkg() == nil || !strings.HasSuffix(cal.Pkg().Path(), "kapacitor/influxdb") {
				return false
			}
			return cal.Name() == "Query" || cal.Name() == "QueryFluxResponse" || cal.Name() == "QueryFlux"
		}
		// requests outside a go literal
		nReq, direct := 0, token.NoPos
		var walk func(n ast.Node, inGo bool)
		walk = func(n ast.Node, inGo bool) {
			ast.Inspect(n, func(m ast.Node) bool {
				switch x := m.(type) {
				case *ast.GoStmt:
					if lit, ok := ast.Unparen(x.Call.Fun).(*ast.FuncLit); ok {
						walk(lit.Body, true)
						return false
					}
				case *ast.CallExpr:
					if isReq(x) {
						nReq++
						if !inGo {
							direct = x.Pos()
						}
					}
				}
				return true
			})
		}
		walk(fn.Decl.Body, false)
		// a select with arms on closing and aborting besides a receive
		selOK := false
		ast.Inspect(fn.Decl.Body, func(nd ast.Node) bool {
			ss, ok := nd.(*ast.SelectStmt)
			if !ok {
				return true
			}
			closing, aborting, other := false, false, false
			for _, cc := range ss.Body.List {
				cl := cc.(*ast.CommClause)
				var rx ast.Expr
				switch s := cl.Comm.(type) {
				case *ast.ExprStmt:
					if u, ok := ast.Unparen(s.X).(*ast.UnaryExpr); ok && u.Op == token.ARROW {
						rx = u.X
					}
				case *ast.AssignStmt:
					if u, ok := ast.Unparen(s.Rhs[0]).(*ast.UnaryExpr); ok && u.Op == token.ARROW {
						rx = u.X
					}
				}
				if rx == nil {
					continue
				}
				switch {
				case an.FieldSel(info, rx, recv, "closing"):
					closing = true
				case an.FieldSel(info, rx, recv, "aborting"):
					aborting = true
				default:
					// a local channel (the answer), not the ticker
					if id, ok := ast.Unparen(rx).(*ast.Ident); ok {
						if _, isChan := info.TypeOf(id).Underlying().(*types.Chan); isChan {
							if n := core.NamedOf(info.TypeOf(id).Underlying().(*types.Chan).Elem()); n != nil && n.Obj().Name() != "Time" {
								other = true
							}
						}
					}
				}
			}
			if closing && aborting && other {
				selOK = true
			}
			return true
		})
		c.Check(nReq > 0 && direct == token.NoPos && selOK, "C07.querycancel", recv+".doQuery", fn.Decl.Pos(), "%s.doQuery makes its request to the server in its own frame (or does not wait for the answer next to n.closing and n.aborting; requests %d, select with all three arms %v): while the request is outstanding the stop signal is not looked at — a server that never answers keeps StopTask waiting for ever with the lifecycle lock held, and no other task can be started or stopped", recv, nReq, selOK)
	}
}

// c05NilZero (F132): the zero value of a lambda, regex, star or missing var is a typed nil pointer (ast.ZeroValue), and with
// ignoreMissingVars — every template — such values travel through var declarations (`var g lambda; var f = g`). Wherever a
// value of unknown origin is found to be one of those pointer types by a type assertion or a type switch, what is done with
// the pointer in that arm is nil-safe: guarded by a nil test of the pointer, or a call of a method that tests its receiver
// for nil first.
func c05NilZero(c *core.Ctx) {
	c.Rule("C05.nilzero", "A4: for every pointer type ast.ZeroValue returns as a typed nil ((*LambdaNode)(nil), (*regexp.Regexp)(nil), …): in every loaded package of the module an arm that has found a value of type interface{} to be of that type (v.(*T) with ok, case *T) dereferences the pointer — field selection or a method that does not start with a nil test of its receiver — only behind a nil test of that pointer: a template var that was set from a var without a value is such a nil")
	ap := c.P.Pkg("tick/ast")
	if ap == nil {
		c.Undecided("C05.nilzero", "anchor:tick/ast", token.NoPos, "package not loaded")
		return
	}
	zv := c.P.FindFunc("tick/ast", "", "ZeroValue")
	if zv == nil {
		c.Undecided("C05.nilzero", "anchor:ZeroValue", token.NoPos, "function not found")
		return
	}
	// the typed nils
	nilTypes := map[string]bool{}
	ast.Inspect(zv.Decl.Body, func(nd ast.Node) bool {
		ret, ok := nd.(*ast.ReturnStmt)
		if !ok || len(ret.Results) != 1 {
			return true
		}
		call, ok := ast.Unparen(ret.Results[0]).(*ast.CallExpr)
		if !ok || len(call.Args) != 1 {
			return true
		}
		if id, ok := ast.Unparen(call.Args[0]).(*ast.Ident); !ok || id.Name != "nil" {
			return true
		}
		if tv, ok := ap.TypesInfo.Types[call.Fun]; ok && tv.IsType() {
			if _, isPtr := tv.Type.Underlying().(*types.Pointer); isPtr {
				nilTypes[types.TypeString(tv.Type, nil)] = true
			}
		}
		return true
	})
	c.Floor("C05.nilzero", "typed nil zero values", len(nilTypes), 3)
	// nil-safe methods: first statement tests the receiver for nil
	nilSafe := func(m *types.Func) bool {
		if m == nil {
			return false
		}
		d := declOfFunc(c.P, m)
		if d == nil || d.Decl.Body == nil {
			// regexp methods and the like are not nil-safe
			return false
		}
		if d.Decl.Recv == nil || len(d.Decl.Recv.List[0].Names) == 0 {
			return true // the receiver is not used
		}
		robj := d.Pkg.TypesInfo.Defs[d.Decl.Recv.List[0].Names[0]]
		l := an.Effective(d.Decl.Body.List)
		if len(l) == 0 {
			return true
		}
		tests := func(e ast.Expr) bool {
			found := false
			ast.Inspect(e, func(x ast.Node) bool {
				if be, ok := x.(*ast.BinaryExpr); ok && (be.Op == token.EQL || be.Op == token.NEQ) {
					if id, ok := ast.Unparen(be.X).(*ast.Ident); ok && d.Pkg.TypesInfo.Uses[id] == robj {
						if nid, ok := ast.Unparen(be.Y).(*ast.Ident); ok && nid.Name == "nil" {
							found = true
						}
					}
				}
				return true
			})
			return found
		}
		switch s := l[0].(type) {
		case *ast.IfStmt:
			return tests(s.Cond)
		case *ast.ReturnStmt:
			for _, r := range s.Results {
				if tests(r) {
					return true
				}
			}
		}
		// a method that never touches its receiver's fields
		uses := false
		ast.Inspect(d.Decl.Body, func(x ast.Node) bool {
			if sel, ok := x.(*ast.SelectorExpr); ok {
				if id, ok := ast.Unparen(sel.X).(*ast.Ident); ok && d.Pkg.TypesInfo.Uses[id] == robj {
					uses = true
				}
			}
			return true
		})
		return !uses
	}
	n := 0
	for _, pkg := range c.P.ModPkgs {
		info := pkg.TypesInfo
		for _, f := range core.AllFuncs(pkg) {
			name := f.Decl.Name.Name
			if r := core.RecvName(f.Decl); r != "" {
				name = r + "." + name
			}
			checkArm := func(obj types.Object, tname string, body ast.Node, pos token.Pos) {
				if obj == nil || body == nil {
					return
				}
				n++
				c.Analysed(f)
				bad := token.NoPos
				what := ""
				// `if p == nil || … { return }` guards what follows it in the block
				leavesOnNil := func(st ast.Stmt) bool {
					is, ok := st.(*ast.IfStmt)
					if !ok {
						return false
					}
					l := an.Effective(is.Body.List)
					if len(l) == 0 {
						return false
					}
					if _, ok := l[len(l)-1].(*ast.ReturnStmt); !ok {
						return false
					}
					found := false
					var ors func(e ast.Expr)
					ors = func(e ast.Expr) {
						e = ast.Unparen(e)
						if be, ok := e.(*ast.BinaryExpr); ok {
							if be.Op == token.LOR {
								ors(be.X)
								ors(be.Y)
								return
							}
							if be.Op == token.EQL {
								if id, ok := ast.Unparen(be.X).(*ast.Ident); ok && info.Uses[id] == obj {
									if nid, ok := ast.Unparen(be.Y).(*ast.Ident); ok && nid.Name == "nil" {
										found = true
									}
								}
							}
						}
					}
					ors(is.Cond)
					return found
				}
				var walk func(nd ast.Node, guarded bool)
				walk = func(nd ast.Node, guarded bool) {
					if blk, ok := nd.(*ast.BlockStmt); ok {
						g := guarded
						for _, st := range blk.List {
							if leavesOnNil(st) {
								// the test itself mentions the pointer only in comparisons
								g = true
								continue
							}
							walk(st, g)
						}
						return
					}
					ast.Inspect(nd, func(x ast.Node) bool {
						switch s := x.(type) {
						case *ast.BlockStmt:
							walk(s, guarded)
							return false
						case *ast.IfStmt:
							// if p != nil { … } else { … }   /   if p == nil { return }
							g := false
							if be, ok := ast.Unparen(s.Cond).(*ast.BinaryExpr); ok && (be.Op == token.NEQ || be.Op == token.EQL) {
								if id, ok := ast.Unparen(be.X).(*ast.Ident); ok && info.Uses[id] == obj {
									if nid, ok := ast.Unparen(be.Y).(*ast.Ident); ok && nid.Name == "nil" {
										g = true
										if be.Op == token.NEQ {
											walk(s.Body, true)
											if s.Else != nil {
												walk(s.Else, guarded)
											}
										} else {
											walk(s.Body, guarded)
											if s.Else != nil {
												walk(s.Else, true)
											}
										}
									}
								}
							}
							if g {
								return false
							}
						case *ast.SelectorExpr:
							id, ok := ast.Unparen(s.X).(*ast.Ident)
							if !ok || info.Uses[id] != obj || guarded {
								return true
							}
							if sel, ok := info.Selections[s]; ok {
								switch sel.Kind() {
								case types.FieldVal:
									bad, what = s.Pos(), types.ExprString(s)
								case types.MethodVal:
									if m, ok := sel.Obj().(*types.Func); ok && !nilSafe(m) {
										bad, what = s.Pos(), types.ExprString(s)+"()"
									}
								}
							}
						}
						return true
					})
				}
				walk(body, false)
				c.Check(bad == token.NoPos, "C05.nilzero", fmt.Sprintf("%s#%s@%d", name, tname, n), pos, "%s has found a value to be a %s and uses %s without a nil test: the zero value of such a var is a typed nil (ast.ZeroValue), and in a template `var g lambda` then `var f = g` makes f one — the request that shows the template's vars panics", name, tname, what)
			}
			ast.Inspect(f.Decl.Body, func(nd ast.Node) bool {
				switch s := nd.(type) {
				case *ast.IfStmt:
					// if x, ok := v.(*T); ok { … }
					as, ok := s.Init.(*ast.AssignStmt)
					if !ok || len(as.Lhs) != 2 || len(as.Rhs) != 1 {
						return true
					}
					ta, ok := ast.Unparen(as.Rhs[0]).(*ast.TypeAssertExpr)
					if !ok || ta.Type == nil || !emptyIface(info.TypeOf(ta.X)) {
						return true
					}
					tn := types.TypeString(info.TypeOf(ta.Type), nil)
					if !nilTypes[tn] {
						return true
					}
					if id, ok := as.Lhs[0].(*ast.Ident); ok && id.Name != "_" {
						checkArm(info.Defs[id], tn, s.Body, s.Pos())
					}
				case *ast.TypeSwitchStmt:
					as, ok := s.Assign.(*ast.AssignStmt)
					if !ok {
						return true
					}
					// values of unknown origin only (interface{}): a syntax tree node handed over by the parser is never nil
					if ta, ok := ast.Unparen(as.Rhs[0]).(*ast.TypeAssertExpr); !ok || !emptyIface(info.TypeOf(ta.X)) {
						return true
					}
					for _, cc := range s.Body.List {
						cl := cc.(*ast.CaseClause)
						if len(cl.List) != 1 {
							continue
						}
						tn := types.TypeString(info.TypeOf(cl.List[0]), nil)
						if !nilTypes[tn] {
							continue
						}
						obj := info.Implicits[cl]
						_ = as
						checkArm(obj, tn, &ast.BlockStmt{List: cl.Body}, cl.Pos())
					}
				}
				return true
			})
		}
	}
	c.Floor("C05.nilzero", "arms that have found a typed-nil-capable pointer", n, 2)
}

func emptyIface(t types.Type) bool {
	if t == nil {
		return false
	}
	it, ok := t.Underlying().(*types.Interface)
	return ok && it.NumMethods() == 0
}

// c05PropRead (F133): what package tick can establish about a property — that it is a readable field — it can establish for
// its own ReflectionDescriber only. A node that describes itself (pipeline.UDFNode) answers HasProperty for names that can only
// be set and hands the read on to reflection, which panics on the missing field. Every read through the SelfDescriber
// interface in tick therefore happens in a frame that recovers.
func c05PropRead(c *core.Ctx) {
	c.Rule("C05.propread", "A9a: in package tick every call of the interface method SelfDescriber.Property — a describer the package does not know — stands in a function or function literal whose deferred function recovers unconditionally and does not re-panic: `var u = stream|from()@myudf()` then `var f = u.field` (an option of the UDF, which can only be set) otherwise panics in reflection outside the recover around function calls, and defining the task panics")
	pkg := c.P.Pkg("tick")
	if pkg == nil {
		c.Undecided("C05.propread", "anchor:tick", token.NoPos, "package not loaded")
		return
	}
	info := pkg.TypesInfo
	n := 0
	for _, f := range core.AllFuncs(pkg) {
		// innermost function literal or declaration around a node
		var frames []ast.Node
		var visit func(nd ast.Node)
		visit = func(nd ast.Node) {
			ast.Inspect(nd, func(x ast.Node) bool {
				switch s := x.(type) {
				case *ast.FuncLit:
					frames = append(frames, s)
					visit(s.Body)
					frames = frames[:len(frames)-1]
					return false
				case *ast.CallExpr:
					sel, ok := s.Fun.(*ast.SelectorExpr)
					if !ok || sel.Sel.Name != "Property" || len(s.Args) != 1 {
						return true
					}
					se, ok := info.Selections[sel]
					if !ok {
						return true
					}
					if _, isIface := se.Recv().Underlying().(*types.Interface); !isIface {
						return true
					}
					n++
					c.Analysed(f)
					var body *ast.BlockStmt
					if len(frames) > 0 {
						body = frames[len(frames)-1].(*ast.FuncLit).Body
					} else {
						body = f.Decl.Body
					}
					rec := false
					for _, st := range body.List {
						if ds, ok := st.(*ast.DeferStmt); ok {
							if dl, ok := ast.Unparen(ds.Call.Fun).(*ast.FuncLit); ok {
								if uncond, _ := recoverPlacement(info, dl.Body); uncond && !repanics(info, dl.Body) {
									rec = true
								}
							}
						}
					}
					c.Check(rec, "C05.propread", fmt.Sprintf("%s#Property%d", f.Decl.Name.Name, n), s.Pos(), "%s reads a property through the SelfDescriber interface outside a frame that recovers: a describer of another package may answer HasProperty for a name it cannot read (the options of a UDF node) and panic in reflection — the panic leaves tick.Evaluate and defining the task panics", f.Decl.Name.Name)
				}
				return true
			})
		}
		visit(f.Decl.Body)
	}
	c.Floor("C05.propread", "reads through SelfDescriber.Property", n, 1)
}

// c05AlertID (F134): the ID template is executed on the tags of every point, like the message template on its fields (F107):
// where rendering the ID failed, alertState.Point, alertState.BufferedBatch and AlertNode.NewGroup count the error and go on —
// none of them returns it, which would end the node and the task on one point.
func c05AlertID(c *core.Ctx, root *packages.Package) {
	c.Rule("C05.alertid", "A1: F134: in alertState.Point, alertState.BufferedBatch and AlertNode.NewGroup the arm that handles a failed renderID counts the error (incrementErrorCount) and does not return a non-nil error: an ID template such as {{ slice (index .Tags \"host\") 0 6 }} fails on one point's tags only")
	info := root.TypesInfo
	for _, m := range [][2]string{{"alertState", "Point"}, {"alertState", "BufferedBatch"}, {"AlertNode", "NewGroup"}} {
		fn := c.Need("C05.alertid", "", m[0], m[1])
		if fn == nil {
			continue
		}
		c.Analysed(fn)
		var errObj types.Object
		ast.Inspect(fn.Decl.Body, func(nd ast.Node) bool {
			as, ok := nd.(*ast.AssignStmt)
			if !ok || len(as.Lhs) != 2 || len(as.Rhs) != 1 {
				return true
			}
			call, ok := ast.Unparen(as.Rhs[0]).(*ast.CallExpr)
			if !ok {
				return true
			}
			if cal := core.Callee(info, call); cal == nil || cal.Name() != "renderID" {
				return true
			}
			if id, ok := as.Lhs[1].(*ast.Ident); ok {
				errObj = info.Defs[id]
				if errObj == nil {
					errObj = info.Uses[id]
				}
			}
			return true
		})
		construct := m[0] + "." + m[1]
		if errObj == nil {
			c.Undecided("C05.alertid", construct, fn.Decl.Pos(), "the renderID call was not found")
			continue
		}
		handled, counted, returnsErr := false, false, token.NoPos
		ast.Inspect(fn.Decl.Body, func(nd ast.Node) bool {
			is, ok := nd.(*ast.IfStmt)
			if !ok {
				return true
			}
			be, ok := ast.Unparen(is.Cond).(*ast.BinaryExpr)
			if !ok || be.Op != token.NEQ {
				return true
			}
			id, ok := ast.Unparen(be.X).(*ast.Ident)
			if !ok || info.Uses[id] != errObj {
				return true
			}
			if handled {
				return true // a later err of the same name
			}
			handled = true
			ast.Inspect(is.Body, func(m ast.Node) bool {
				switch x := m.(type) {
				case *ast.CallExpr:
					if cal := core.Callee(info, x); cal != nil && cal.Name() == "incrementErrorCount" {
						counted = true
					}
				case *ast.ReturnStmt:
					if len(x.Results) > 0 {
						last := ast.Unparen(x.Results[len(x.Results)-1])
						if lid, ok := last.(*ast.Ident); !ok || lid.Name != "nil" {
							returnsErr = x.Pos()
						}
					}
				}
				return true
			})
			return true
		})
		c.Check(handled && counted && returnsErr == token.NoPos, "C05.alertid", construct, fn.Decl.Pos(), "%s returns the error of the ID template (or does not count it; handled %v, counted %v): the template is executed on the tags of every point, one point on which it fails — a tag value shorter than the slice it takes — ends the alert node and with it the task", construct, handled, counted)
	}
}

// c13ZeroArgs (F135): the pipeline→TICKscript function builder has two kinds of call: Pipe/Dot/At leave out every argument
// that is the zero value of its type (right for a property with one argument, where zero means "not set"), the ZeroValueOK
// variants render all. Where a call has two or more arguments they are positional — leaving one out moves the others
// (holtWinters('value', 10, 0, 1m) with three arguments, .field('x', 0.0) as .field('x')): such a call uses a ZeroValueOK
// variant, unless it is in the table of read-and-verified exceptions.
func c13ZeroArgs(c *core.Ctx) {
	c.Rule("C13.zeroargs", "A7: in the Build methods of pipeline/tick every call of a zero-dropping builder method (Pipe, Dot, At) passes at most one value besides the name, or spreads the result of the list helpers args()/largs() (a list of equals); a call with two or more positional values, or one that spreads a slice assembled from different values, uses PipeZeroValueOK/DotZeroValueOK — exceptions are listed with their reason (sample: N and Duration are alternatives; link: the text is optional)")
	tp := c.P.Pkg("pipeline/tick")
	if tp == nil {
		c.Undecided("C13.zeroargs", "anchor:pipeline/tick", token.NoPos, "package not loaded")
		return
	}
	info := tp.TypesInfo
	exempt := map[string]string{
		"SampleNode.Build#sample": "sample(N) and sample(Duration) are alternatives: the builder passes both and relies on the zero one being left out",
		"AlertNode.Build#link":    "link(url, text...): the text is optional, an empty one may be left out",
		// lists of equals assembled in a loop: an empty element carries no position
		"ChangeDetectNode.Build#changeDetect": "changeDetect(fields...): a list of field names",
		"FromNode.Build#groupBy":              "groupBy(dimensions...): a list of tag names, time() and * nodes",
		"GroupByNode.Build#groupBy":           "groupBy(dimensions...): a list of tag names, time() and * nodes",
		"JoinNode.Build#join":                 "join(nodes...): references to the joined nodes, never zero",
		"UnionNode.Build#union":               "union(nodes...): references to the united nodes, never zero",
		"SideloadNode.Build#order":            "order(paths...): a list of path templates",
	}
	n := 0
	for _, f := range core.AllFuncs(tp) {
		if f.Decl.Name.Name != "Build" || f.Decl.Recv == nil {
			continue
		}
		recv := core.RecvName(f.Decl)
		ast.Inspect(f.Decl.Body, func(nd ast.Node) bool {
			call, ok := nd.(*ast.CallExpr)
			if !ok || len(call.Args) < 2 {
				return true
			}
			cal := core.Callee(info, call)
			if cal == nil || core.RecvTypeName(cal) != "Function" {
				return true
			}
			switch cal.Name() {
			case "Pipe", "Dot", "At":
			default:
				return true
			}
			label := "?"
			if tv, ok := info.Types[call.Args[0]]; ok && tv.Value != nil && tv.Value.Kind() == constant.String {
				label = constant.StringVal(tv.Value)
			} else {
				label = types.ExprString(call.Args[0])
			}
			construct := recv + ".Build#" + label
			positional := false
			why := ""
			if call.Ellipsis != token.NoPos {
				last := ast.Unparen(call.Args[len(call.Args)-1])
				if inner, ok := last.(*ast.CallExpr); ok {
					if ic := core.Callee(info, inner); ic != nil && (ic.Name() == "args" || ic.Name() == "largs") && len(call.Args) == 2 {
						return true // a list of equals
					}
				}
				positional, why = true, "spreads "+types.ExprString(last)+", a slice assembled from different values"
			} else if len(call.Args) >= 3 {
				positional, why = true, fmt.Sprintf("passes %d values", len(call.Args)-1)
			}
			if !positional {
				return true
			}
			n++
			c.Analysed(f)
			if r, ok := exempt[construct]; ok {
				c.Ok("C13.zeroargs", construct, "exempt: "+r)
				return true
			}
			c.Fail("C13.zeroargs", construct, call.Pos(), "%s.Build renders %s through %s, which leaves out every zero-valued argument, and %s: the arguments are positional — holtWinters('value', 10, 0, 1m) comes out with three arguments, .field('x', 0.0) as .field('x'), .header('k', '') as .header('k'): the rendered script does not compile or defines another task", recv, label, cal.Name(), why)
			return true
		})
	}
	// the calls that keep zero values are counted too: the rule protects them
	m := 0
	for _, f := range core.AllFuncs(tp) {
		if f.Decl.Name.Name != "Build" {
			continue
		}
		ast.Inspect(f.Decl.Body, func(nd ast.Node) bool {
			if call, ok := nd.(*ast.CallExpr); ok {
				if cal := core.Callee(info, call); cal != nil && core.RecvTypeName(cal) == "Function" && (cal.Name() == "DotZeroValueOK" || cal.Name() == "PipeZeroValueOK") {
					m++
				}
			}
			return true
		})
	}
	c.Floor("C13.zeroargs", "positional calls that keep zero values", m, 10)
	c.Floor("C13.zeroargs", "exempted positional calls", n, 8)
}

// c02ForkNamespace (F137): the task master keeps the forks of the tasks and those of other subscribers (stream recordings) in
// one table keyed by name. A subscriber outside the kapacitor package names its fork so that it cannot collide with a task ID
// — a constant prefix containing a character the ID pattern ^[-\._\p{L}0-9]+$ excludes — and unregisters it on every path
// that leaves after the registration: a fork nobody reads blocks the fan-out for every task once its buffer is full.
func c02ForkNamespace(c *core.Ctx) {
	c.Rule("C02.forkns", "A6/A2: F137: every TaskMaster.NewFork call of another package names the fork <constant prefix with a character no task ID may contain> + <id>, with the very variable DelFork is given, and no return statement stands between the registration's own error test and the DelFork call: a recording named like a running task otherwise replaces the task's edge in the fork table, and a recording that fails after subscribing leaves a fork nobody reads")
	sp := c.P.Pkg("services/replay")
	if sp == nil {
		c.Note("C02.forkns: services/replay is not loaded in this run")
		return
	}
	info := sp.TypesInfo
	n := 0
	for _, f := range core.AllFuncs(sp) {
		var nf, df *ast.CallExpr
		ast.Inspect(f.Decl.Body, func(nd ast.Node) bool {
			if call, ok := nd.(*ast.CallExpr); ok {
				if sel, ok := call.Fun.(*ast.SelectorExpr); ok && len(call.Args) >= 1 {
					switch sel.Sel.Name {
					case "NewFork":
						nf = call
					case "DelFork":
						df = call
					}
				}
			}
			return true
		})
		if nf == nil {
			continue
		}
		n++
		c.Analysed(f)
		name := f.Decl.Name.Name
		// the name: a local defined once as "<prefix>" + x, used for both calls
		okName, why := false, "the fork is named "+types.ExprString(nf.Args[0])
		if id, ok := ast.Unparen(nf.Args[0]).(*ast.Ident); ok {
			obj := info.Uses[id]
			defs := 0
			ast.Inspect(f.Decl.Body, func(nd ast.Node) bool {
				as, ok := nd.(*ast.AssignStmt)
				if !ok {
					return true
				}
				for i, l := range as.Lhs {
					lid, ok := ast.Unparen(l).(*ast.Ident)
					if !ok || (info.Defs[lid] != obj && info.Uses[lid] != obj) || i >= len(as.Rhs) {
						continue
					}
					defs++
					if be, ok := ast.Unparen(as.Rhs[i]).(*ast.BinaryExpr); ok && be.Op == token.ADD {
						if tv, ok := info.Types[be.X]; ok && tv.Value != nil && tv.Value.Kind() == constant.String {
							pre := constant.StringVal(tv.Value)
							if strings.ContainsAny(pre, "/:@ ") {
								okName = true
							} else {
								why = "the prefix " + strconv.Quote(pre) + " consists of characters a task ID may contain"
							}
						}
					} else {
						why = "the fork is named " + types.ExprString(as.Rhs[i])
					}
				}
				return true
			})
			if defs != 1 {
				okName = false
			}
			if df != nil {
				if did, ok := ast.Unparen(df.Args[0]).(*ast.Ident); !ok || info.Uses[did] != obj {
					okName, why = false, "DelFork is given "+types.ExprString(df.Args[0])+", NewFork "+types.ExprString(nf.Args[0])
				}
			}
		}
		c.Check(okName, "C02.forkns", name+"#name", nf.Pos(), "%s registers a fork whose name can be the ID of a task (%s): `record stream -task T -recording-id T` replaces T's edge in the task master's fork table — T receives nothing while the recording runs, loses its subscription when it ends, and cannot be stopped afterwards", name, why)
		// no return between the registration and DelFork, except in the if that tests NewFork's error
		if df == nil {
			c.Fail("C02.forkns", name+"#unregister", nf.Pos(), "%s registers a fork and never calls DelFork", name)
			continue
		}
		leak := token.NoPos
		var errIf *ast.IfStmt
		ast.Inspect(f.Decl.Body, func(nd ast.Node) bool {
			if is, ok := nd.(*ast.IfStmt); ok && is.Pos() > nf.End() && errIf == nil {
				errIf = is
			}
			return true
		})
		ast.Inspect(f.Decl.Body, func(nd ast.Node) bool {
			if _, ok := nd.(*ast.FuncLit); ok {
				return false
			}
			ret, ok := nd.(*ast.ReturnStmt)
			if !ok || ret.Pos() < nf.End() || ret.Pos() > df.Pos() {
				return true
			}
			if errIf != nil && ret.Pos() > errIf.Pos() && ret.End() <= errIf.End() {
				return true
			}
			leak = ret.Pos()
			return true
		})
		c.Check(leak == token.NoPos, "C02.forkns", name+"#unregister", leak, "%s can return between NewFork and DelFork: the fork stays registered and unread — after 1000 points its buffer is full and the task master's fan-out blocks for every task that shares a database with it", name)
	}
	c.Floor("C02.forkns", "NewFork call sites outside the kapacitor package", n, 1)
}

// c19AgentClose (F138): the Go agent is started on one connection for both directions when it serves a socket
// (agent.New(conn, conn)). Kapacitor ends a UDF by closing its own side for writing and then reads what is still to come: the
// agent's read loop sees the end of its input while the write loop still has responses to write. The read loop therefore
// closes its input only when it is not also the output.
func c19AgentClose(c *core.Ctx) {
	c.Rule("C19.agentclose", "A2: F138: Agent.readLoop closes a.in only under a test that input and output are different objects (the write loop closes the one connection of a socket agent after the last response): an unconditional Close of the input, deferred or not, cuts off the responses of the last points when Kapacitor closes its side for writing")
	fn := c.Need("C19.agentclose", "udf/agent", "Agent", "readLoop")
	if fn == nil {
		return
	}
	ap := c.P.Pkg("udf/agent")
	info := ap.TypesInfo
	closes, conditional := 0, 0
	var walk func(n ast.Node, underTest bool)
	walk = func(n ast.Node, underTest bool) {
		ast.Inspect(n, func(m ast.Node) bool {
			switch x := m.(type) {
			case *ast.IfStmt:
				// a condition that mentions both a.in and a.out
				in, out := false, false
				ast.Inspect(x.Cond, func(e ast.Node) bool {
					if sel, ok := e.(*ast.SelectorExpr); ok {
						if an.FieldSel(info, sel, "Agent", "in") {
							in = true
						}
						if an.FieldSel(info, sel, "Agent", "out") {
							out = true
						}
					}
					return true
				})
				walk(x.Body, underTest || (in && out))
				if x.Else != nil {
					walk(x.Else, underTest || (in && out))
				}
				return false
			case *ast.CallExpr:
				if sel, ok := x.Fun.(*ast.SelectorExpr); ok && sel.Sel.Name == "Close" && an.FieldSel(info, sel.X, "Agent", "in") {
					closes++
					if underTest {
						conditional++
					}
				}
			}
			return true
		})
	}
	walk(fn.Decl.Body, false)
	c.Check(closes == conditional, "C19.agentclose", "Agent.readLoop", fn.Decl.Pos(), "Agent.readLoop closes its input without testing that it is not also the output (%d of %d Close calls under such a test): an agent serving a socket has one connection for both, Kapacitor closes its side for writing and reads on — the responses the write loop has not written yet are lost ('use of closed network connection'), the last points of a stopped task never come back", conditional, closes)
}

// c07WaitAll (F139): ExecutingTask.Wait is how the task store notices that a task has failed — it then stops the task, which is
// what ends the nodes that only end when told to (stats). Waiting for the nodes one after the other hides a failure behind
// every node that comes earlier in the order and runs on: each node is waited for in a goroutine of its own, and Wait returns
// the first failure it receives.
func c07WaitAll(c *core.Ctx, root *packages.Package) {
	c.Rule("C07.waitall", "A2: F139: in ExecutingTask.Wait every Node.Wait call runs in a goroutine of its own (none in Wait's own frame or in a walk callback, which would wait for the nodes one after the other), and Wait returns as soon as it has received a non-nil error: a failed node is reported although a stats node of the same task runs on, so that the task store stops the task and the remaining nodes end")
	fn := c.Need("C07.waitall", "", "ExecutingTask", "Wait")
	if fn == nil {
		return
	}
	c.Analysed(fn)
	info := root.TypesInfo
	inGo, outside := 0, 0
	var walk func(n ast.Node, g bool)
	walk = func(n ast.Node, g bool) {
		ast.Inspect(n, func(m ast.Node) bool {
			switch x := m.(type) {
			case *ast.GoStmt:
				if lit, ok := ast.Unparen(x.Call.Fun).(*ast.FuncLit); ok {
					walk(lit.Body, true)
					return false
				}
			case *ast.CallExpr:
				if sel, ok := x.Fun.(*ast.SelectorExpr); ok && sel.Sel.Name == "Wait" && len(x.Args) == 0 {
					if n := core.NamedOf(info.TypeOf(sel.X)); n != nil && n.Obj().Name() == "Node" {
						if g {
							inGo++
						} else {
							outside++
						}
					}
				}
			}
			return true
		})
	}
	walk(fn.Decl.Body, false)
	// a return of a received non-nil error
	early := false
	ast.Inspect(fn.Decl.Body, func(m ast.Node) bool {
		is, ok := m.(*ast.IfStmt)
		if !ok {
			return true
		}
		recv := false
		if is.Init != nil {
			ast.Inspect(is.Init, func(e ast.Node) bool {
				if u, ok := e.(*ast.UnaryExpr); ok && u.Op == token.ARROW {
					recv = true
				}
				return true
			})
		}
		if !recv {
			return true
		}
		for _, st := range is.Body.List {
			if _, ok := st.(*ast.ReturnStmt); ok {
				early = true
			}
		}
		return true
	})
	c.Check(inGo > 0 && outside == 0 && early, "C07.waitall", "ExecutingTask.Wait", fn.Decl.Pos(), "ExecutingTask.Wait waits for the nodes one after the other (Node.Wait calls in goroutines of their own: %d, elsewhere: %d; returns on the first received error: %v): a node that only ends when it is stopped (stats) keeps Wait from ever reaching the node that failed — the task store never notices the failure, never stops the task, and the remaining nodes never end", inGo, outside, early)
}

// c07CloseOrder (F140): Topics.Close takes every topic out of the table and only then closes them one by one, which is
// what delivers the events still queued for their handlers. A handler that republishes (publish to another topic) collects
// through the same Topics object while its topic drains: the target is no longer in the table, Collect creates a fresh topic
// of that name without handlers, and the event is dropped. A topic must stay in the table until the topics that may publish
// to it have drained — here: no topic leaves the table before some topic has been closed.
func c07CloseOrder(c *core.Ctx) {
	c.Rule("C07.closeorder", "A2: F140: Topics.Close does not empty the topic table before the handlers have worked off their queues — either a loop of Topic.flush rounds stands before the table is emptied, or no topic leaves the table before the first one is closed (drained): an event a republishing handler forwards while its topic drains must find the target topic — with its handlers — still in the table, otherwise Collect creates an empty topic of that name and the event reaches no handler")
	ap := c.P.Pkg("alert")
	if ap == nil {
		c.Note("C07.closeorder: alert is not loaded in this run")
		return
	}
	fn := c.Need("C07.closeorder", "alert", "Topics", "Close")
	if fn == nil {
		return
	}
	c.Analysed(fn)
	info := ap.TypesInfo
	// a loop over s.topics that deletes every entry, before any close() call
	firstClose, delLoop := token.NoPos, token.NoPos
	ast.Inspect(fn.Decl.Body, func(nd ast.Node) bool {
		switch x := nd.(type) {
		case *ast.RangeStmt:
			if !an.FieldSel(info, x.X, "Topics", "topics") {
				return true
			}
			dels, conditional := false, false
			for _, st := range x.Body.List {
				if es, ok := st.(*ast.ExprStmt); ok {
					if call, ok := es.X.(*ast.CallExpr); ok && core.IsBuiltin(info, call, "delete") && len(call.Args) == 2 && an.FieldSel(info, call.Args[0], "Topics", "topics") {
						dels = true
					}
				}
				if _, ok := st.(*ast.IfStmt); ok {
					conditional = true
				}
			}
			if dels && !conditional && delLoop == token.NoPos {
				delLoop = x.Pos()
			}
		case *ast.CallExpr:
			if cal := core.Callee(info, x); cal != nil && cal.Name() == "close" && core.RecvTypeName(cal) == "Topic" && firstClose == token.NoPos {
				firstClose = x.Pos()
			}
		}
		return true
	})
	// F140's repair: before the table is emptied, the handlers of all topics work off their queues (Topic.flush), in a loop
	// that goes on while a round delivered something
	flushed := false
	ast.Inspect(fn.Decl.Body, func(nd ast.Node) bool {
		fs, ok := nd.(*ast.ForStmt)
		if !ok || (delLoop != token.NoPos && fs.Pos() > delLoop) {
			return true
		}
		ast.Inspect(fs.Body, func(m ast.Node) bool {
			if call, ok := m.(*ast.CallExpr); ok {
				if cal := core.Callee(info, call); cal != nil && cal.Name() == "flush" && core.RecvTypeName(cal) == "Topic" {
					flushed = true
				}
			}
			return true
		})
		return true
	})
	bad := delLoop != token.NoPos && (firstClose == token.NoPos || delLoop < firstClose) && !flushed
	c.Check(!bad, "C07.closeorder", "Topics.Close#table-emptied-first", delLoop, "Topics.Close deletes every topic from the table before it closes the first one: while topic A drains, its publish handler collects into topic B through Topics.Collect, finds no B, creates an empty one — the event, accepted before the shutdown, reaches none of B's handlers")
}
