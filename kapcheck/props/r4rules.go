package props

import (
	"go/ast"
	"go/constant"
	"go/token"
	"go/types"
	"strings"

	"golang.org/x/tools/go/packages"

	"kapcheck/an"
	"kapcheck/core"
)

// Rules added after the fourth round of seeded changes. Each states a necessary condition of its property that the earlier
// rules did not look at, mostly in a package next to the anchored one.

// c02ForkOwner (seed C02-10-r4): a fork registered from outside the task master (the replay service's stream recording) must
// not carry the name of a task: newFork keys the per-key maps by that name, so the running task's edge under every key would
// be replaced and DelFork would remove the task's own subscription. The name is followed back through the parameters of the
// calling package; an origin that is the ID field of a kapacitor.Task is refused.
func c02ForkOwner(c *core.Ctx) {
	c.Rule("C02.forkowner", "A6 (who-may-call + provenance): a fork that another package registers with TaskMaster.NewFork is not named by the ID of a task (followed back through the parameters of the calling package), and the same expression names it for DelFork")
	sp := c.P.Pkg("services/replay")
	if sp == nil {
		c.Note("C02.forkowner: services/replay is not loaded in this run")
		return
	}
	info := sp.TypesInfo
	funcs := map[*types.Func]*core.Func{}
	for _, f := range core.AllFuncs(sp) {
		if o, ok := info.Defs[f.Decl.Name].(*types.Func); ok {
			funcs[o] = f
		}
	}
	isTaskID := func(e ast.Expr) bool {
		sel, ok := ast.Unparen(e).(*ast.SelectorExpr)
		if !ok || sel.Sel.Name != "ID" {
			return false
		}
		t := info.TypeOf(sel.X)
		if pt, ok := t.(*types.Pointer); ok {
			t = pt.Elem()
		}
		nt := core.NamedOf(t)
		return nt != nil && nt.Obj().Name() == "Task" && nt.Obj().Pkg() != nil && nt.Obj().Pkg().Path() == core.Module
	}
	// origins of an expression: follow parameters to the call sites inside the package (depth 3)
	var origins func(f *core.Func, e ast.Expr, depth int) []ast.Expr
	origins = func(f *core.Func, e ast.Expr, depth int) []ast.Expr {
		id, ok := ast.Unparen(e).(*ast.Ident)
		if !ok || depth == 0 {
			return []ast.Expr{e}
		}
		obj := info.Uses[id]
		fo, _ := info.Defs[f.Decl.Name].(*types.Func)
		if fo == nil {
			return []ast.Expr{e}
		}
		sig := fo.Type().(*types.Signature)
		idx := -1
		for i := 0; i < sig.Params().Len(); i++ {
			if sig.Params().At(i) == obj {
				idx = i
			}
		}
		if idx < 0 {
			return []ast.Expr{e}
		}
		var out []ast.Expr
		for _, g := range funcs {
			ast.Inspect(g.Decl.Body, func(n ast.Node) bool {
				if call, ok := n.(*ast.CallExpr); ok && core.Callee(info, call) == fo && idx < len(call.Args) {
					out = append(out, origins(g, call.Args[idx], depth-1)...)
				}
				return true
			})
		}
		if len(out) == 0 {
			return []ast.Expr{e}
		}
		return out
	}
	n := 0
	for _, f := range funcs {
		var newName, delName string
		var newCall *ast.CallExpr
		ast.Inspect(f.Decl.Body, func(nd ast.Node) bool {
			call, ok := nd.(*ast.CallExpr)
			if !ok || len(call.Args) < 1 {
				return true
			}
			sel, ok := call.Fun.(*ast.SelectorExpr)
			if !ok {
				return true
			}
			switch sel.Sel.Name {
			case "NewFork":
				if len(call.Args) == 3 {
					newName, newCall = types.ExprString(call.Args[0]), call
				}
			case "DelFork":
				if len(call.Args) == 1 {
					delName = types.ExprString(call.Args[0])
				}
			}
			return true
		})
		if newCall == nil {
			continue
		}
		n++
		c.Analysed(f)
		name := f.Decl.Name.Name
		if r := core.RecvName(f.Decl); r != "" {
			name = r + "." + name
		}
		bad := ""
		for _, o := range origins(f, newCall.Args[0], 3) {
			if isTaskID(o) {
				bad = types.ExprString(o)
			}
		}
		c.Check(bad == "", "C02.forkowner", name+"#name", newCall.Pos(), "%s registers a fork whose name comes from %s, the ID of a task: TaskMaster.newFork keys the edge maps by that name — while the recording runs the enabled task of that ID has lost its edge under every key and receives nothing, and DelFork then removes the task's own subscription for good", name, bad)
		c.Check(delName == "" || delName == newName, "C02.forkowner", name+"#same-name", newCall.Pos(), "%s registers the fork as %s but removes %s: the fork that was registered stays subscribed, another one is removed", name, newName, delName)
	}
	c.Floor("C02.forkowner", "forks registered from services/replay", n, 1)
}

// c02ReadBuf (seed C02-11-r4): an ingestion loop that reads into one buffer again and again must hand each datagram on as a
// copy: the parsed points alias the bytes they were parsed from, and the next read overwrites them while they are still being
// written to the tasks.
func c02ReadBuf(c *core.Ctx) {
	c.Rule("C02.readbuf", "A9 (ownership): in a loop that reads into a buffer declared outside the loop (ReadFromUDP, Read), nothing rooted in that buffer is sent on a channel, stored or appended — what leaves the loop is a copy made in the same iteration")
	sp := c.P.Pkg("services/udp")
	if sp == nil {
		c.Note("C02.readbuf: services/udp is not loaded in this run")
		return
	}
	info := sp.TypesInfo
	n := 0
	for _, f := range core.AllFuncs(sp) {
		ast.Inspect(f.Decl.Body, func(nd ast.Node) bool {
			loop, ok := nd.(*ast.ForStmt)
			if !ok {
				return true
			}
			// buffers read into inside the loop, declared outside it
			bufs := map[types.Object]bool{}
			ast.Inspect(loop.Body, func(m ast.Node) bool {
				call, ok := m.(*ast.CallExpr)
				if !ok || len(call.Args) < 1 {
					return true
				}
				cal := core.Callee(info, call)
				if cal == nil || !strings.HasPrefix(cal.Name(), "Read") {
					return true
				}
				if id, ok := ast.Unparen(call.Args[0]).(*ast.Ident); ok {
					if o := info.Uses[id]; o != nil && !(o.Pos() >= loop.Body.Pos() && o.Pos() <= loop.Body.End()) {
						bufs[o] = true
					}
				}
				return true
			})
			if len(bufs) == 0 {
				return true
			}
			n++
			c.Analysed(f)
			name := f.Decl.Name.Name
			if r := core.RecvName(f.Decl); r != "" {
				name = r + "." + name
			}
			rooted := func(e ast.Expr) bool {
				for {
					e = ast.Unparen(e)
					switch x := e.(type) {
					case *ast.SliceExpr:
						e = x.X
						continue
					case *ast.Ident:
						return bufs[info.Uses[x]]
					}
					return false
				}
			}
			bad := token.NoPos
			what := ""
			ast.Inspect(loop.Body, func(m ast.Node) bool {
				switch x := m.(type) {
				case *ast.SendStmt:
					if rooted(x.Value) {
						bad, what = x.Pos(), "sent on "+types.ExprString(x.Chan)
					}
				case *ast.AssignStmt:
					for i, r := range x.Rhs {
						if !rooted(r) || i >= len(x.Lhs) {
							continue
						}
						// assigning a sub-slice to a local is fine; storing it into a field or element is an escape
						if _, isLocal := ast.Unparen(x.Lhs[i]).(*ast.Ident); !isLocal {
							bad, what = x.Pos(), "stored into "+types.ExprString(x.Lhs[i])
						}
					}
				case *ast.CallExpr:
					if core.IsBuiltin(info, x, "append") {
						for _, a := range x.Args[1:] {
							if rooted(a) && x.Ellipsis == token.NoPos {
								bad, what = x.Pos(), "appended to "+types.ExprString(x.Args[0])
							}
						}
					}
				}
				return true
			})
			c.Check(bad == token.NoPos, "C02.readbuf", name+"#copy", bad, "%s reads every datagram into the same buffer and a slice of that buffer is %s: the points parsed from it alias its bytes, the next read overwrites them while the previous datagram is still being written to the tasks — a point is delivered with the next datagram's measurement and fields, one point is lost and one duplicated", name, what)
			return false
		})
	}
	c.Floor("C02.readbuf", "read loops over a reused buffer in services/udp", n, 1)
}

// c06RowIndex (seed C06-11-r4): HTTPOutNode keeps one result row per group and every group remembers its row number.
// Removing a group renumbers exactly the groups behind it: in the loop that rewrites the numbers, the first element visited is
// idx+1 when the loop runs before the removal and idx when it runs after.
func c06RowIndex(c *core.Ctx, root *packages.Package) {
	c.Rule("C06.rowindex", "A4: HTTPOutNode.deleteGroup renumbers every group behind the removed one: the renumbering loop starts at idx+1 before the removal from n.indexes and at idx after it (a group that keeps its old number writes into another group's row)")
	info := root.TypesInfo
	fn := c.Need("C06.rowindex", "", "HTTPOutNode", "deleteGroup")
	if fn == nil {
		return
	}
	c.Analysed(fn)
	idx := an.ParamName(fn.Decl.Type, 0)
	// the removal: n.indexes = append(n.indexes[..idx], n.indexes[idx+1..]...)
	removal := token.NoPos
	ast.Inspect(fn.Decl.Body, func(n ast.Node) bool {
		as, ok := n.(*ast.AssignStmt)
		if ok && len(as.Lhs) == 1 && an.FieldSel(info, as.Lhs[0], "HTTPOutNode", "indexes") {
			removal = as.Pos()
		}
		return true
	})
	if removal == token.NoPos {
		c.Undecided("C06.rowindex", "HTTPOutNode.deleteGroup", fn.Decl.Pos(), "the removal from n.indexes was not found")
		return
	}
	found, good, why := false, false, ""
	check := func(pos token.Pos, low string) {
		found = true
		low = strings.ReplaceAll(low, " ", "")
		want := idx + "+1"
		if pos > removal {
			want = idx
		}
		if low == want {
			good = true
		} else {
			why = "the loop starts at " + low + ", the first group that moved is at " + want
		}
	}
	writesIdx := func(body *ast.BlockStmt) bool {
		w := false
		ast.Inspect(body, func(m ast.Node) bool {
			switch x := m.(type) {
			case *ast.IncDecStmt:
				if sel, ok := ast.Unparen(x.X).(*ast.SelectorExpr); ok && sel.Sel.Name == "idx" {
					w = true
				}
			case *ast.AssignStmt:
				for _, l := range x.Lhs {
					if sel, ok := ast.Unparen(l).(*ast.SelectorExpr); ok && sel.Sel.Name == "idx" {
						w = true
					}
				}
			}
			return true
		})
		return w
	}
	ast.Inspect(fn.Decl.Body, func(n ast.Node) bool {
		switch x := n.(type) {
		case *ast.RangeStmt:
			if !writesIdx(x.Body) {
				return true
			}
			if sl, ok := ast.Unparen(x.X).(*ast.SliceExpr); ok && an.FieldSel(info, sl.X, "HTTPOutNode", "indexes") && sl.Low != nil {
				check(x.Pos(), types.ExprString(sl.Low))
			}
		case *ast.ForStmt:
			if !writesIdx(x.Body) {
				return true
			}
			if as, ok := x.Init.(*ast.AssignStmt); ok && len(as.Rhs) == 1 {
				check(x.Pos(), types.ExprString(as.Rhs[0]))
			}
		}
		return true
	})
	if !found {
		c.Fail("C06.rowindex", "HTTPOutNode.deleteGroup#renumber", fn.Decl.Pos(), "deleteGroup removes a group's row without renumbering the groups behind it: they keep writing into the row of the group after them")
		return
	}
	c.Check(good, "C06.rowindex", "HTTPOutNode.deleteGroup#renumber", fn.Decl.Pos(), "deleteGroup does not renumber every group behind the removed one (%s): after a group was deleted (barrier().delete(TRUE)), the group that moved into its slot keeps its old row number and writes into the row of the group behind it — what the task shows for one group then depends on another group having existed", why)
}

// c08RestoreID (seed C08-10-r4): the ID under which NewGroup looks up the persisted state of a group is rendered from the same
// three values as the ID of the events the group sends (the message's own name, group ID and tags): an ID template may refer
// to any tag of the point, not only to the dimensions of the group.
func c08RestoreID(c *core.Ctx, root *packages.Package) {
	c.Rule("C08.restoreid", "A3 (sibling agreement): AlertNode.NewGroup renders the ID it restores the persisted state under from the first message's own Name(), GroupID() and Tags() — the same accessors alertState.Point and BufferedBatch render the event ID from — so that the restored ID is the ID of the group's events for every ID template")
	info := root.TypesInfo
	roles := func(fn *core.Func) [][3]string {
		var out [][3]string
		ast.Inspect(fn.Decl.Body, func(n ast.Node) bool {
			call, ok := n.(*ast.CallExpr)
			if !ok || len(call.Args) != 3 {
				return true
			}
			if cal := core.Callee(info, call); cal == nil || cal.Name() != "renderID" {
				return true
			}
			var r [3]string
			for i, a := range call.Args {
				// the accessor called, without its receiver
				if ce, ok := ast.Unparen(a).(*ast.CallExpr); ok {
					if sel, ok := ce.Fun.(*ast.SelectorExpr); ok {
						r[i] = sel.Sel.Name + "()"
						continue
					}
				}
				r[i] = types.ExprString(a)
			}
			out = append(out, r)
			return true
		})
		return out
	}
	ng := c.Need("C08.restoreid", "", "AlertNode", "NewGroup")
	if ng == nil {
		return
	}
	c.Analysed(ng)
	want := [3]string{"Name()", "GroupID()", "Tags()"}
	got := roles(ng)
	if len(got) == 0 {
		c.Undecided("C08.restoreid", "AlertNode.NewGroup", ng.Decl.Pos(), "no renderID call found")
		return
	}
	for _, r := range got {
		c.Check(r == want, "C08.restoreid", "AlertNode.NewGroup#renderID", ng.Decl.Pos(), "NewGroup renders the ID it restores the group's persisted state under from (%s, %s, %s) instead of the first message's own Name(), GroupID(), Tags(): the events of the group are identified by an ID rendered from the point's own tags — an ID template that names a tag outside the group-by dimensions renders to another ID here, nothing is found in the store, the alert resumes at OK although CRITICAL is persisted, and the recovery is never reported", r[0], r[1], r[2])
	}
}

// c15BucketPath (seed C08-12-r4): Bolt.Bucket builds a child handle by appending to the parent's path. Two children of one
// parent share the appended element unless the parent's path has no spare capacity; the paths a handle is created with must
// therefore be exact: NewBolt is given its buckets one by one, or a spread slice that is a literal or was made without extra
// capacity.
func c15BucketPath(c *core.Ctx) {
	c.Rule("C15.bucketpath", "A9 (ownership): while Bolt.Bucket appends to the parent handle's path, every path a handle is created with has no spare capacity (NewBolt gets its buckets as separate arguments, or a spread slice that is a composite literal or made with length only): otherwise two bucket handles taken from one store share the last path element, and a reader retargets a writer's transaction to another bucket")
	sp := c.P.Pkg("services/storage")
	if sp == nil {
		c.Note("C15.bucketpath: services/storage is not loaded in this run")
		return
	}
	info := sp.TypesInfo
	bucket := c.P.FindFunc("services/storage", "Bolt", "Bucket")
	if bucket == nil {
		c.Undecided("C15.bucketpath", "anchor:Bolt.Bucket", token.NoPos, "method not found")
		return
	}
	appends := false
	ast.Inspect(bucket.Decl.Body, func(n ast.Node) bool {
		if call, ok := n.(*ast.CallExpr); ok && core.IsBuiltin(info, call, "append") && len(call.Args) >= 1 && an.FieldSel(info, call.Args[0], "Bolt", "bucket") {
			appends = true
		}
		return true
	})
	if !appends {
		c.Ok("C15.bucketpath", "Bolt.Bucket#fresh", "Bolt.Bucket does not append to the parent's path")
		return
	}
	n := 0
	for _, pkg := range c.P.ModPkgs {
		pinfo := pkg.TypesInfo
		for _, f := range core.AllFuncs(pkg) {
			ast.Inspect(f.Decl.Body, func(nd ast.Node) bool {
				call, ok := nd.(*ast.CallExpr)
				if !ok {
					return true
				}
				cal := core.Callee(pinfo, call)
				if cal == nil || cal.Name() != "NewBolt" || cal.Pkg() == nil || !strings.HasSuffix(cal.Pkg().Path(), "services/storage") {
					return true
				}
				n++
				c.Analysed(f)
				name := f.Decl.Name.Name
				if r := core.RecvName(f.Decl); r != "" {
					name = r + "." + name
				}
				if call.Ellipsis == token.NoPos {
					c.Ok("C15.bucketpath", name+"#NewBolt")
					return true
				}
				// the spread slice
				arg := ast.Unparen(call.Args[len(call.Args)-1])
				exact, why := false, types.ExprString(arg)
				var def ast.Expr = arg
				if id, ok := arg.(*ast.Ident); ok {
					obj := pinfo.Uses[id]
					ast.Inspect(f.Decl.Body, func(m ast.Node) bool {
						if as, ok := m.(*ast.AssignStmt); ok {
							for i, l := range as.Lhs {
								if lid, ok := l.(*ast.Ident); ok && (pinfo.Defs[lid] == obj || pinfo.Uses[lid] == obj) && i < len(as.Rhs) {
									def = ast.Unparen(as.Rhs[i])
								}
							}
						}
						return true
					})
				}
				switch x := def.(type) {
				case *ast.CompositeLit:
					exact = true
				case *ast.CallExpr:
					if core.IsBuiltin(pinfo, x, "make") {
						switch len(x.Args) {
						case 2:
							exact = true
						case 3:
							l, lok := pinfo.Types[x.Args[1]]
							cp, cok := pinfo.Types[x.Args[2]]
							if lok && cok && l.Value != nil && cp.Value != nil && constant.Compare(l.Value, token.EQL, cp.Value) {
								exact = true
							} else {
								why = types.ExprString(x) + " (capacity beyond the length)"
							}
						}
					}
				}
				c.Check(exact, "C15.bucketpath", name+"#NewBolt", call.Pos(), "%s creates a Bolt handle from the spread slice %s, which may have spare capacity: Bolt.Bucket appends to the parent's path, so every bucket handle taken from this store writes its bucket name into the same array element — a restoreTopic of topic B between a writer's tx.Bucket(\"A\") and its Put commits A's event state into B's bucket (atomically)", name, why)
				return true
			})
		}
	}
	c.Floor("C15.bucketpath", "NewBolt call sites", n, 2)
}

// c14Rules4 (seeds C14-11-r4, C14-12-r4).
func c14Rules4(c *core.Ctx, sp *packages.Package) {
	info := sp.TypesInfo
	c.Rule("C14.rollbackcopy", "A9 (ownership): what updateAllAssociatedTasks saves for the rollback (oldDBRPs[id] = task.DBRPs) is not the backing array the new definition is then written into: the next value of task.DBRPs is a fresh slice (literal, make, nil), never a re-slice of or an append to the saved one")
	if fn := c.Need("C14.rollbackcopy", "services/task_store", "Service", "updateAllAssociatedTasks"); fn != nil {
		c.Analysed(fn)
		var saved ast.Expr
		var savePos token.Pos
		ast.Inspect(fn.Decl.Body, func(n ast.Node) bool {
			as, ok := n.(*ast.AssignStmt)
			if !ok || len(as.Lhs) != 1 || len(as.Rhs) != 1 {
				return true
			}
			if ix, ok := ast.Unparen(as.Lhs[0]).(*ast.IndexExpr); ok {
				if _, isMap := info.TypeOf(ix.X).Underlying().(*types.Map); isMap {
					if sel, ok := ast.Unparen(as.Rhs[0]).(*ast.SelectorExpr); ok && sel.Sel.Name == "DBRPs" {
						saved, savePos = as.Rhs[0], as.Pos()
					}
				}
			}
			return true
		})
		if saved == nil {
			c.Undecided("C14.rollbackcopy", "Service.updateAllAssociatedTasks", fn.Decl.Pos(), "the statement that saves the task's dbrps for the rollback was not found")
		} else {
			text := types.ExprString(saved)
			// the first assignment to the saved expression behind the save
			var first *ast.AssignStmt
			ast.Inspect(fn.Decl.Body, func(n ast.Node) bool {
				as, ok := n.(*ast.AssignStmt)
				if !ok || as.Pos() <= savePos || len(as.Lhs) != 1 || len(as.Rhs) != 1 {
					return true
				}
				if _, inLit := n.(*ast.AssignStmt); inLit && types.ExprString(as.Lhs[0]) == text && (first == nil || as.Pos() < first.Pos()) {
					first = as
				}
				return true
			})
			fresh := false
			why := "it is never assigned again"
			if first != nil {
				r := ast.Unparen(first.Rhs[0])
				why = "it is next assigned " + types.ExprString(r)
				switch x := r.(type) {
				case *ast.CompositeLit:
					fresh = true
				case *ast.Ident:
					fresh = x.Name == "nil"
				case *ast.CallExpr:
					fresh = core.IsBuiltin(info, x, "make")
				}
			}
			c.Check(fresh, "C14.rollbackcopy", "Service.updateAllAssociatedTasks#fresh-dbrps", savePos, "the dbrps saved for the rollback (%s) share their backing array with what is written next (%s): the appends of the new template's dbrps overwrite the saved copy, and a template update that is rejected at a later task rolls the earlier tasks back to the old script with the NEW dbrps — a rejected request changed task definitions, and the tasks are restarted subscribed to the wrong database", text, why)
		}
	}
	c.Rule("C14.lasterror", "A3 (provenance): saveLastError writes the error into the task as it is stored now — the value it replaces comes from a Get of the same id inside the function — never into a Task value handed in by the caller (the goroutine that waits for a running task holds the definition of its start)")
	if fn := c.Need("C14.lasterror", "services/task_store", "Service", "saveLastError"); fn != nil {
		c.Analysed(fn)
		var got types.Object
		ast.Inspect(fn.Decl.Body, func(n ast.Node) bool {
			as, ok := n.(*ast.AssignStmt)
			if !ok || len(as.Rhs) != 1 {
				return true
			}
			if call, ok := as.Rhs[0].(*ast.CallExpr); ok {
				if cal := core.Callee(info, call); cal != nil && cal.Name() == "Get" {
					if id, ok := as.Lhs[0].(*ast.Ident); ok {
						got = info.Defs[id]
						if got == nil {
							got = info.Uses[id]
						}
					}
				}
			}
			return true
		})
		replaced, fromGet := false, false
		ast.Inspect(fn.Decl.Body, func(n ast.Node) bool {
			call, ok := n.(*ast.CallExpr)
			if !ok || len(call.Args) != 1 {
				return true
			}
			if cal := core.Callee(info, call); cal != nil && (cal.Name() == "Replace" || cal.Name() == "Put") {
				replaced = true
				if id, ok := ast.Unparen(call.Args[0]).(*ast.Ident); ok && got != nil && info.Uses[id] == got {
					fromGet = true
				}
			}
			return true
		})
		if !replaced {
			c.Undecided("C14.lasterror", "Service.saveLastError", fn.Decl.Pos(), "no Replace/Put found")
		} else {
			c.Check(fromGet, "C14.lasterror", "Service.saveLastError#read-modify-write", fn.Decl.Pos(), "saveLastError does not replace the task it has just read from the store: the goroutine that waits for a running task to finish calls it long after the start — writing back a Task value from then reverts every definition accepted since (script, dbrps, vars); the API no longer shows the last accepted definition, and after a restart the old one runs")
		}
	}
}

// c12Units (seed C12-11-r4): a units analysis of the times the join compares. A time is RAW (a message's Time()), a BUCKET (the
// result of Round/Truncate, i.e. rounded to the tolerance), ZERO (time.Time{}) or unknown. Locals take the kind of what is
// assigned to them, map elements and fields the kind of what is stored into them anywhere in the join. Before/After/Equal must
// not compare a RAW time with a BUCKET: the low marks and set times are buckets, and a raw time in the upper half of a
// tolerance interval is on the other side of its own bucket.
func c12Units(c *core.Ctx, root *packages.Package) {
	c.Rule("C12.units", "A7 (units of time values): in the join, no Before/After/Equal compares a message's raw Time() with a time that was rounded to the tolerance (a low mark, a set time, a local assigned from Round): kinds are propagated through locals, map elements and fields; only definite RAW-vs-BUCKET comparisons are reported")
	info := root.TypesInfo
	const (
		unknown = iota
		zero
		raw
		bucket
		mixed
	)
	join := func(a, b int) int {
		switch {
		case a == unknown || a == zero:
			if b == unknown && a == zero {
				return zero
			}
			return b
		case b == unknown || b == zero:
			return a
		case a == b:
			return a
		}
		return mixed
	}
	isTime := func(e ast.Expr) bool { return core.TypeIs(info.TypeOf(e), "time", "Time") }
	var fns []*core.Func
	for _, f := range core.AllFuncs(root) {
		switch core.RecvName(f.Decl) {
		case "JoinNode", "joinGroup", "joinset":
			fns = append(fns, f)
		}
	}
	store := map[types.Object]int{} // fields (incl. map-typed ones: kind of the element stored)
	local := map[types.Object]int{}
	var kind func(e ast.Expr) int
	kind = func(e ast.Expr) int {
		e = ast.Unparen(e)
		switch x := e.(type) {
		case *ast.CompositeLit:
			if isTime(x) && len(x.Elts) == 0 {
				return zero
			}
		case *ast.CallExpr:
			if sel, ok := x.Fun.(*ast.SelectorExpr); ok {
				switch sel.Sel.Name {
				case "Round", "Truncate":
					if isTime(sel.X) {
						return bucket
					}
				case "Time":
					if len(x.Args) == 0 && isTime(x) {
						return raw
					}
				}
			}
		case *ast.Ident:
			if o := info.Uses[x]; o != nil {
				return local[o]
			}
		case *ast.SelectorExpr:
			if s, ok := info.Selections[x]; ok && s.Kind() == types.FieldVal {
				return store[s.Obj()]
			}
		case *ast.IndexExpr:
			if sel, ok := ast.Unparen(x.X).(*ast.SelectorExpr); ok {
				if s, ok := info.Selections[sel]; ok && s.Kind() == types.FieldVal {
					return store[s.Obj()]
				}
			}
		}
		return unknown
	}
	for round := 0; round < 6; round++ {
		changed := false
		set := func(m map[types.Object]int, o types.Object, k int) {
			if o == nil || k == unknown {
				return
			}
			if nk := join(m[o], k); nk != m[o] {
				m[o] = nk
				changed = true
			}
		}
		for _, f := range fns {
			ast.Inspect(f.Decl.Body, func(n ast.Node) bool {
				switch x := n.(type) {
				case *ast.AssignStmt:
					if len(x.Lhs) != len(x.Rhs) {
						// v, ok := m[k]
						if len(x.Lhs) == 2 && len(x.Rhs) == 1 {
							if id, ok := x.Lhs[0].(*ast.Ident); ok && isTime(x.Lhs[0]) {
								o := info.Defs[id]
								if o == nil {
									o = info.Uses[id]
								}
								set(local, o, kind(x.Rhs[0]))
							}
						}
						return true
					}
					for i, l := range x.Lhs {
						if !isTime(l) {
							continue
						}
						k := kind(x.Rhs[i])
						switch y := ast.Unparen(l).(type) {
						case *ast.Ident:
							o := info.Defs[y]
							if o == nil {
								o = info.Uses[y]
							}
							set(local, o, k)
						case *ast.SelectorExpr:
							if s, ok := info.Selections[y]; ok && s.Kind() == types.FieldVal {
								set(store, s.Obj(), k)
							}
						case *ast.IndexExpr:
							if sel, ok := ast.Unparen(y.X).(*ast.SelectorExpr); ok {
								if s, ok := info.Selections[sel]; ok && s.Kind() == types.FieldVal {
									set(store, s.Obj(), k)
								}
							}
						}
					}
				case *ast.RangeStmt:
					// for t := range g.sets: the key of a map keyed by time has the kind of the keys stored
				}
				return true
			})
		}
		if !changed {
			break
		}
	}
	n := 0
	names := map[int]string{raw: "a message's raw Time()", bucket: "a time rounded to the tolerance"}
	for _, f := range fns {
		k := 0
		ast.Inspect(f.Decl.Body, func(nd ast.Node) bool {
			call, ok := nd.(*ast.CallExpr)
			if !ok || len(call.Args) != 1 {
				return true
			}
			sel, ok := call.Fun.(*ast.SelectorExpr)
			if !ok || (sel.Sel.Name != "Before" && sel.Sel.Name != "After" && sel.Sel.Name != "Equal") || !isTime(sel.X) || !isTime(call.Args[0]) {
				return true
			}
			n++
			k++
			a, b := kind(sel.X), kind(call.Args[0])
			cons := core.RecvName(f.Decl) + "." + f.Decl.Name.Name + "#cmp" + strconvItoa(k)
			if (a == raw && b == bucket) || (a == bucket && b == raw) {
				c.Fail("C12.units", cons, call.Pos(), "%s.%s compares %s (%s) with %s (%s): a point in the upper half of a tolerance interval (6s with a 10s tolerance is in bucket 10s) is on the other side of its own bucket when its raw time is compared — it looks older than the low mark exactly when its partner arrives, is sent alone and the pair is lost under one arrival order only", core.RecvName(f.Decl), f.Decl.Name.Name, types.ExprString(sel.X), names[a], types.ExprString(call.Args[0]), names[b])
			} else {
				c.Ok("C12.units", cons)
			}
			return true
		})
	}
	c.Floor("C12.units", "time comparisons in the join", n, 10)
}

func strconvItoa(i int) string {
	if i == 0 {
		return "0"
	}
	s := ""
	for i > 0 {
		s = string(rune('0'+i%10)) + s
		i /= 10
	}
	return s
}

// c11KeepState (seed C11-12-r4): a streaming transformation (cumulativeSum, difference, elapsed, movingAverage, derivative) is
// its running state. A point the reducer cannot take — the field missing, another type — is skipped; it must not cost the
// state: Point and BatchPoint of the transformation group never assign the reduce context (only BeginBatch starts a new one,
// and realizeReduceContext creates the first).
func c11KeepState(c *core.Ctx, root *packages.Package) {
	c.Rule("C11.keepstate", "A2: influxqlStreamingTransformGroup.Point and .BatchPoint never assign the reduce context: a point that cannot be aggregated is skipped without resetting the running state of cumulativeSum/difference/elapsed/movingAverage (a new context starts only in BeginBatch, the first one in realizeReduceContext)")
	info := root.TypesInfo
	for _, m := range []string{"Point", "BatchPoint"} {
		fn := c.Need("C11.keepstate", "", "influxqlStreamingTransformGroup", m)
		if fn == nil {
			continue
		}
		c.Analysed(fn)
		bad := token.NoPos
		ast.Inspect(fn.Decl.Body, func(n ast.Node) bool {
			if as, ok := n.(*ast.AssignStmt); ok {
				for _, l := range as.Lhs {
					if sel, ok := ast.Unparen(l).(*ast.SelectorExpr); ok && sel.Sel.Name == "rc" {
						if s, ok := info.Selections[sel]; ok && s.Kind() == types.FieldVal {
							bad = as.Pos()
						}
					}
				}
			}
			return true
		})
		c.Check(bad == token.NoPos, "C11.keepstate", "influxqlStreamingTransformGroup."+m+"#rc", bad, "influxqlStreamingTransformGroup.%s assigns the reduce context: one point that lacks the field (or carries it with another type) resets the running state — cumulativeSum restarts from zero, difference/elapsed/movingAverage lose their previous point or window and drop an output — for every sparse point in the data", m)
	}
}

// c05Rules4 (seeds C05-11-r4, C05-12-r4).
func c05Rules4(c *core.Ctx) {
	c.Rule("C05.evalassert", "A4: in the expression evaluator no single-value type assertion is applied to a NodeEvaluator: which evaluator stands at an operand depends on the expression (a reference, a unary minus over one, a lambda variable wrapping one), and the assertion runs for points that lack a field — a wrong guess is a panic on the direct EvalBool path of where/alert/from")
	if sp := c.P.Pkg("tick/stateful"); sp != nil {
		info := sp.TypesInfo
		n := 0
		for _, f := range core.AllFuncs(sp) {
			okForm := map[*ast.TypeAssertExpr]bool{}
			ast.Inspect(f.Decl.Body, func(nd ast.Node) bool {
				switch x := nd.(type) {
				case *ast.AssignStmt:
					if len(x.Lhs) == 2 && len(x.Rhs) == 1 {
						if ta, ok := ast.Unparen(x.Rhs[0]).(*ast.TypeAssertExpr); ok {
							okForm[ta] = true
						}
					}
				case *ast.ValueSpec:
					if len(x.Names) == 2 && len(x.Values) == 1 {
						if ta, ok := ast.Unparen(x.Values[0]).(*ast.TypeAssertExpr); ok {
							okForm[ta] = true
						}
					}
				case *ast.TypeSwitchStmt:
					ast.Inspect(x.Assign, func(m ast.Node) bool {
						if ta, ok := m.(*ast.TypeAssertExpr); ok {
							okForm[ta] = true
						}
						return true
					})
				}
				return true
			})
			ast.Inspect(f.Decl.Body, func(nd ast.Node) bool {
				ta, ok := nd.(*ast.TypeAssertExpr)
				if !ok || ta.Type == nil {
					return true
				}
				nt := core.NamedOf(info.TypeOf(ta.X))
				if nt == nil || nt.Obj().Name() != "NodeEvaluator" || nt.Obj().Pkg() != sp.Types {
					return true
				}
				n++
				name := f.Decl.Name.Name
				if r := core.RecvName(f.Decl); r != "" {
					name = r + "." + name
				}
				c.Check(okForm[ta], "C05.evalassert", name+"#"+types.ExprString(ta.Type), ta.Pos(), "%s asserts a NodeEvaluator to be %s in the single-value form: an operand of type missing need not be a reference node (-\"value\", a lambda variable) — for a point that lacks the field the assertion panics, where/alert/from call EvalBool directly, and one such point ends the task", name, types.ExprString(ta.Type))
				return true
			})
		}
		c.Floor("C05.evalassert", "type assertions on NodeEvaluator values", n, 2)
	}
	c.Rule("C05.udf.abortwait", "A6: UDFNode.abortedCallback closes the node's abort signal and then waits for the writer goroutine (WaitGroup.Wait) on every path: the UDF server closes its input channel as soon as the callback returns, and the writer's select has both arms ready otherwise — a send on the closed channel on a goroutine without recover")
	root := c.P.Pkg("")
	if root == nil {
		return
	}
	info := root.TypesInfo
	fn := c.Need("C05.udf.abortwait", "", "UDFNode", "abortedCallback")
	if fn == nil {
		return
	}
	c.Analysed(fn)
	eng := &an.Engine{Prog: c.P,
		TrackCall: func(call *ast.CallExpr, callee *types.Func) string {
			if core.IsBuiltin(info, call, "close") && len(call.Args) == 1 && an.FieldSel(info, call.Args[0], "UDFNode", "aborted") {
				return "close"
			}
			if callee != nil && callee.Name() == "Wait" {
				if sel, ok := call.Fun.(*ast.SelectorExpr); ok && an.FieldSel(info, sel.X, "UDFNode", "wg") {
					return "wait"
				}
			}
			return ""
		}}
	paths, err := eng.Run(fn)
	if err != nil {
		c.Undecided("C05.udf.abortwait", "UDFNode.abortedCallback", fn.Decl.Pos(), "%v", err)
		return
	}
	good := len(paths) > 0
	for _, p := range paths {
		if p.Exit == "panic" {
			continue
		}
		if !(p.Has("close") && p.Has("wait") && p.Index("close") < p.Index("wait")) {
			good = false
		}
	}
	c.Check(good, "C05.udf.abortwait", "UDFNode.abortedCallback#wait-for-writer", fn.Decl.Pos(), "abortedCallback returns without having waited for the node's writer goroutine behind the abort signal: udf.Server.abort runs the callback and then closes the input channel; a writer that reaches its select afterwards has both the send and the abort arm ready, Go picks at random, and the send on the closed channel panics on a goroutine without recover — a UDF that answers with an error (or dies) while the node is idle ends the process at the next point")
}

// c13Rules4 (seeds C13-10-r4, C13-11-r4).
func c13Rules4(c *core.Ctx) {
	c.Rule("C13.numfmt", "A4: number literals are printed with strconv.FormatFloat(v, 'f', -1, 64): the shortest text that reads back as the same float64 (precision -1) — a bit size of 32 prints the shortest text for a float32, and the formatted script holds another number")
	if ap := c.P.Pkg("tick/ast"); ap != nil {
		info := ap.TypesInfo
		n := 0
		for _, f := range core.AllFuncs(ap) {
			ast.Inspect(f.Decl.Body, func(nd ast.Node) bool {
				call, ok := nd.(*ast.CallExpr)
				if !ok || len(call.Args) != 4 {
					return true
				}
				cal := core.Callee(info, call)
				if cal == nil || cal.Pkg() == nil || cal.Pkg().Path() != "strconv" || cal.Name() != "FormatFloat" {
					return true
				}
				n++
				c.Analysed(f)
				name := f.Decl.Name.Name
				if r := core.RecvName(f.Decl); r != "" {
					name = r + "." + name
				}
				var got []string
				for _, a := range call.Args[1:] {
					g := "?"
					if tv, ok := info.Types[a]; ok && tv.Value != nil {
						g = constant.ToInt(tv.Value).ExactString()
					}
					got = append(got, g)
				}
				c.Check(len(got) == 3 && got[0] == "102" && got[1] == "-1" && got[2] == "64", "C13.numfmt", name+"#FormatFloat", call.Pos(), "%s prints a float with the format arguments %v; ('f', -1, 64) = [102 -1 64] is the shortest text that reads back as the same float64 — with bit size 32, 0.123456789 is written as 0.12345679 and 16777217.0 as 16777216.0: formatting a script changes its thresholds silently", name, got)
				return true
			})
		}
		c.Floor("C13.numfmt", "FormatFloat calls in tick/ast", n, 1)
	} else {
		c.Note("C13.numfmt: tick/ast is not loaded in this run")
	}
	c.Rule("C13.quietplace", "A7: the function that adds the quiet property behind a node's own function descends only through property chains (Operator == TokenDot): a node attached with @ (a UDF) or | ends the descent, otherwise the property is rendered on the parent node")
	tp := c.P.Pkg("pipeline/tick")
	if tp == nil {
		c.Note("C13.quietplace: pipeline/tick is not loaded in this run")
		return
	}
	info := tp.TypesInfo
	for _, f := range core.AllFuncs(tp) {
		emits := false
		ast.Inspect(f.Decl.Body, func(nd ast.Node) bool {
			if kv, ok := nd.(*ast.KeyValueExpr); ok {
				if k, ok := kv.Key.(*ast.Ident); ok && k.Name == "Func" {
					if tv, ok := info.Types[kv.Value]; ok && tv.Value != nil && tv.Value.Kind() == constant.String && constant.StringVal(tv.Value) == "quiet" {
						emits = true
					}
				}
			}
			return true
		})
		fo, _ := info.Defs[f.Decl.Name].(*types.Func)
		if !emits || fo == nil {
			continue
		}
		// the recursive descent and the condition it stands under
		var cond ast.Expr
		ast.Inspect(f.Decl.Body, func(nd ast.Node) bool {
			is, ok := nd.(*ast.IfStmt)
			if !ok {
				return true
			}
			rec := false
			ast.Inspect(is.Body, func(m ast.Node) bool {
				if call, ok := m.(*ast.CallExpr); ok && core.Callee(info, call) == fo {
					rec = true
				}
				return true
			})
			if rec {
				cond = is.Cond
			}
			return true
		})
		if cond == nil {
			continue // no descent: the property is appended at the end
		}
		c.Analysed(f)
		// a conjunct `<x>.Operator == ast.TokenDot`
		okk := false
		var walk func(e ast.Expr)
		walk = func(e ast.Expr) {
			e = ast.Unparen(e)
			b, ok := e.(*ast.BinaryExpr)
			if !ok {
				return
			}
			if b.Op == token.LAND {
				walk(b.X)
				walk(b.Y)
				return
			}
			if b.Op == token.EQL {
				l, r := types.ExprString(b.X), types.ExprString(b.Y)
				if (strings.HasSuffix(l, ".Operator") && strings.HasSuffix(r, "TokenDot")) || (strings.HasSuffix(r, ".Operator") && strings.HasSuffix(l, "TokenDot")) {
					okk = true
				}
			}
		}
		walk(cond)
		c.Check(okk, "C13.quietplace", f.Decl.Name.Name+"#descent", cond.Pos(), "%s descends to place .quiet() under the condition %s, not only through property chains (Operator == ast.TokenDot): a UDF node is attached with @ — the descent walks through the UDF's own function into its parent, and `…|from()@delorean().quiet()` is rendered as `|from().quiet()@delorean()`: the property moves to another node", f.Decl.Name.Name, types.ExprString(cond))
	}
}

// c07LoopbackErr (seed C07-12-r4): the loopback node is an output. The only error its write returns is ErrTaskMasterClosed, once a
// clean shutdown has closed the ingest path; a node that returns it fails, aborts its parent edge, the abort cascades to the
// source and a sibling output never gets the backlog that is still upstream. A write error is reported, never returned.
func c07LoopbackErr(c *core.Ctx, root *packages.Package) {
	c.Rule("C07.loopbackerr", "A1 (sibling agreement): KapacitorLoopbackNode.Point and .BatchPoint report a failed WriteKapacitorPoint and return nil on every path: the write fails exactly during a clean shutdown, and a failing output aborts the edges it shares with its siblings")
	info := root.TypesInfo
	n := 0
	for _, m := range []string{"Point", "BatchPoint"} {
		fn := c.P.FindFunc("", "KapacitorLoopbackNode", m)
		if fn == nil {
			continue
		}
		n++
		eng := &an.Engine{Prog: c.P,
			TrackCall: func(call *ast.CallExpr, callee *types.Func) string {
				if callee != nil && callee.Name() == "WriteKapacitorPoint" {
					return "write"
				}
				return ""
			},
			Classify: func(a an.Atom) (string, bool) {
				if k, ok := an.ErrNilAtom(info, a); ok && strings.Contains(k, "WriteKapacitorPoint(") {
					return "werr", true
				}
				return "", false
			}}
		paths, err := eng.Run(fn)
		if err != nil {
			c.Undecided("C07.loopbackerr", "KapacitorLoopbackNode."+m, fn.Decl.Pos(), "%v", err)
			continue
		}
		good, seen := true, false
		for _, p := range paths {
			if !p.Has("write") || p.Exit == "panic" {
				continue
			}
			seen = true
			v, decided := p.Assign()["werr"]
			last := ""
			if len(p.Rets) > 0 {
				last = p.Rets[len(p.Rets)-1]
			}
			if last != "nil" && (!decided || v) {
				good = false
				c.Fail("C07.loopbackerr", "KapacitorLoopbackNode."+m+"#write-error", p.RetPos, "KapacitorLoopbackNode.%s returns an error on a path where the loopback write failed (path condition: %s): WriteKapacitorPoint fails with ErrTaskMasterClosed as soon as a clean shutdown has closed the ingest path — the node fails, node.start aborts its parent edge, the shared from() fails too, and a sibling influxDBOut never receives the acknowledged backlog that is still upstream, while Close returns nil", m, p.Cond())
				break
			}
		}
		if !seen {
			c.Undecided("C07.loopbackerr", "KapacitorLoopbackNode."+m, fn.Decl.Pos(), "no path writes")
		} else if good {
			c.Ok("C07.loopbackerr", "KapacitorLoopbackNode."+m+"#write-error")
		}
	}
	c.Floor("C07.loopbackerr", "loopback write methods", n, 2)
}

// c13Rules4b (F123, F124; found by a saboteur while preparing round 4).
func c13Rules4b(c *core.Ctx) {
	c.Rule("C13.nilfunc", "A9: in the pipeline→TICKscript function builder a chain node is never made with a function that may be nil: a function obtained from a helper that can return nil (all arguments zero) is tested against nil before it becomes the right side of a chain")
	if tp := c.P.Pkg("pipeline/tick"); tp != nil {
		info := tp.TypesInfo
		mayNil := map[*types.Func]bool{}
		for _, f := range core.AllFuncs(tp) {
			if fo, ok := info.Defs[f.Decl.Name].(*types.Func); ok {
				ast.Inspect(f.Decl.Body, func(n ast.Node) bool {
					if ret, ok := n.(*ast.ReturnStmt); ok && len(ret.Results) == 2 && types.ExprString(ret.Results[0]) == "nil" && types.ExprString(ret.Results[1]) == "nil" {
						mayNil[fo] = true
					}
					return true
				})
			}
		}
		n := 0
		for _, f := range core.AllFuncs(tp) {
			if core.RecvName(f.Decl) != "Function" {
				continue
			}
			// fn, err := <helper>(…)
			var fnObj types.Object
			var helper *types.Func
			nameOnly := false
			ast.Inspect(f.Decl.Body, func(nd ast.Node) bool {
				as, ok := nd.(*ast.AssignStmt)
				if !ok || len(as.Lhs) != 2 || len(as.Rhs) != 1 {
					return true
				}
				call, ok := as.Rhs[0].(*ast.CallExpr)
				if !ok {
					return true
				}
				if cal := core.Callee(info, call); cal != nil && cal.Pkg() == tp.Types && f.Decl.Recv != nil {
					if id, ok := as.Lhs[0].(*ast.Ident); ok {
						if sig, ok := cal.Type().(*types.Signature); ok && sig.Results().Len() == 2 {
							fnObj = info.Defs[id]
							helper = cal
							// called with the name only, the helpers return the bare function
							nameOnly = len(call.Args) == 1 && call.Ellipsis == token.NoPos
						}
					}
				}
				return true
			})
			if fnObj == nil || helper == nil {
				continue
			}
			// uses of fn as the right side of a chain constructor
			ast.Inspect(f.Decl.Body, func(nd ast.Node) bool {
				call, ok := nd.(*ast.CallExpr)
				if !ok || len(call.Args) != 2 {
					return true
				}
				cal := core.Callee(info, call)
				if cal == nil || cal.Pkg() != tp.Types || (cal.Name() != "Dot" && cal.Name() != "Pipe" && cal.Name() != "At") || cal.Type().(*types.Signature).Recv() != nil {
					return true
				}
				id, ok := ast.Unparen(call.Args[1]).(*ast.Ident)
				if !ok || info.Uses[id] != fnObj {
					return true
				}
				n++
				c.Analysed(f)
				cons := "Function." + f.Decl.Name.Name + "#" + cal.Name()
				if !mayNil[helper] || nameOnly {
					c.Ok("C13.nilfunc", cons)
					return true
				}
				text := id.Name
				guarded := guardedBy(f.Decl.Body, call, text, func(cond ast.Expr, br bool) bool {
					b, ok := ast.Unparen(cond).(*ast.BinaryExpr)
					if !ok || types.ExprString(b.X) != text || types.ExprString(b.Y) != "nil" {
						return false
					}
					return (b.Op == token.NEQ) == br
				})
				c.Check(guarded, "C13.nilfunc", cons, call.Pos(), "Function.%s makes a chain node whose right side comes from %s, which returns nil when every argument is a zero value, without testing it against nil: .fill(0) on a query (an argument that was given) renders a chain without a function, and formatting the rendered script dereferences nil", f.Decl.Name.Name, helper.Name())
				return true
			})
		}
		c.Floor("C13.nilfunc", "chain constructions in the function builder", n, 5)
	}
	c.Rule("C13.prec", "A7: BinaryNode.Format does not write its operands directly: each goes through a helper that writes parentheses when the operand is a binary node without the parser's parentheses flag whose operator binds too weak for its place (the helper reads Parens and the Format compares operator precedences) — trees that were not parsed (two where conditions combined with AND) mean in text what the tree means")
	ap := c.P.Pkg("tick/ast")
	if ap == nil {
		return
	}
	info := ap.TypesInfo
	fn := c.Need("C13.prec", "tick/ast", "BinaryNode", "Format")
	if fn == nil {
		return
	}
	c.Analysed(fn)
	direct, viaHelper, comparesPrec := 0, 0, false
	var helper *types.Func
	ast.Inspect(fn.Decl.Body, func(nd ast.Node) bool {
		switch x := nd.(type) {
		case *ast.CallExpr:
			if sel, ok := x.Fun.(*ast.SelectorExpr); ok && sel.Sel.Name == "Format" {
				if an.FieldSel(info, sel.X, "BinaryNode", "Left") || an.FieldSel(info, sel.X, "BinaryNode", "Right") {
					direct++
				}
			}
			if cal := core.Callee(info, x); cal != nil && cal.Pkg() == ap.Types {
				for _, a := range x.Args {
					if an.FieldSel(info, a, "BinaryNode", "Left") || an.FieldSel(info, a, "BinaryNode", "Right") {
						viaHelper++
						helper = cal
					}
				}
				if strings.Contains(strings.ToLower(cal.Name()), "precedence") {
					comparesPrec = true
				}
			}
		case *ast.IndexExpr:
			if id, ok := ast.Unparen(x.X).(*ast.Ident); ok && id.Name == "precedence" {
				comparesPrec = true
			}
		}
		return true
	})
	readsParens := false
	if helper != nil {
		if hf := c.P.FindFunc("tick/ast", "", helper.Name()); hf != nil {
			ast.Inspect(hf.Decl.Body, func(nd ast.Node) bool {
				if sel, ok := nd.(*ast.SelectorExpr); ok && sel.Sel.Name == "Parens" {
					readsParens = true
				}
				return true
			})
		}
	}
	c.Check(direct == 0 && viaHelper >= 2 && comparesPrec && readsParens, "C13.prec", "BinaryNode.Format#operands", fn.Decl.Pos(), "BinaryNode.Format writes an operand without deciding whether it needs parentheses (direct Format calls on Left/Right: %d, operands through a helper: %d, operator precedences compared: %v, helper reads the Parens flag: %v): it relies on the flag the parser sets, and a tree that was not parsed — the condition two where properties are combined into, (a OR b) AND (c OR d) — is written as a OR b AND c OR d, which reads back as another condition", direct, viaHelper, comparesPrec, readsParens)
}

// c15TxHandle (seed C15-10-r4): the transaction handle works inside its own transaction. Every data method of boltTx reaches the
// store through a Bolt helper that is given the handle's own tx; a call of one of Bolt's exported data methods opens another
// transaction, which sees the last committed state instead of the transaction's own writes.
func c15TxHandle(c *core.Ctx) {
	c.Rule("C15.txhandle", "A6 (sibling agreement): every data method of boltTx passes the handle's own transaction to the Bolt helper it delegates to, and calls none of Bolt's methods that open a transaction of their own (db.View/db.Update inside): a List that reads outside the transaction does not see its writes, and a delete followed by a rebuild in one Update re-creates the index entries of the deleted object")
	sp := c.P.Pkg("services/storage")
	if sp == nil {
		return
	}
	info := sp.TypesInfo
	// Bolt methods that open their own transaction
	opens := map[*types.Func]bool{}
	for _, f := range core.AllFuncs(sp) {
		if core.RecvName(f.Decl) != "Bolt" {
			continue
		}
		fo, _ := info.Defs[f.Decl.Name].(*types.Func)
		ast.Inspect(f.Decl.Body, func(n ast.Node) bool {
			if call, ok := n.(*ast.CallExpr); ok {
				if sel, ok := call.Fun.(*ast.SelectorExpr); ok && (sel.Sel.Name == "View" || sel.Sel.Name == "Update" || sel.Sel.Name == "Begin") && an.FieldSel(info, sel.X, "Bolt", "db") {
					opens[fo] = true
				}
			}
			return true
		})
	}
	n := 0
	for _, f := range core.AllFuncs(sp) {
		if core.RecvName(f.Decl) != "boltTx" {
			continue
		}
		var bad *types.Func
		delegates, passesTx := false, true
		ast.Inspect(f.Decl.Body, func(nd ast.Node) bool {
			call, ok := nd.(*ast.CallExpr)
			if !ok {
				return true
			}
			sel, ok := call.Fun.(*ast.SelectorExpr)
			if !ok || !an.FieldSel(info, sel.X, "boltTx", "b") {
				return true
			}
			cal := core.Callee(info, call)
			if cal == nil {
				return true
			}
			delegates = true
			if opens[cal] {
				bad = cal
			}
			// helpers that take a *bolt.Tx first must get t.tx
			if sig, ok := cal.Type().(*types.Signature); ok && sig.Params().Len() > 0 {
				if pt, ok := sig.Params().At(0).Type().(*types.Pointer); ok {
					if nt := core.NamedOf(pt.Elem()); nt != nil && nt.Obj().Name() == "Tx" {
						if len(call.Args) == 0 || !an.FieldSel(info, call.Args[0], "boltTx", "tx") {
							passesTx = false
						}
					}
				}
			}
			return true
		})
		if !delegates {
			continue
		}
		n++
		c.Analysed(f)
		name := "boltTx." + f.Decl.Name.Name
		why := ""
		if bad != nil {
			why = "it calls Bolt." + bad.Name() + ", which opens a transaction of its own"
		} else if !passesTx {
			why = "it does not pass its own tx to the helper"
		}
		c.Check(why == "", "C15.txhandle", name, f.Decl.Pos(), "%s does not work inside the handle's own transaction (%s): it reads the last committed state — a CreateTx followed by a ListTx in one transaction does not list the new object, and DeleteTx followed by RebuildTx in one Update rebuilds index entries for the deleted object, after which every List fails with 'no key exists', also after a reopen", name, why)
	}
	c.Floor("C15.txhandle", "data methods of boltTx", n, 6)
}

// c17NoForward (seed C17-12-r4): normalising the time a task was last scheduled at never moves it forward. Next() is strictly
// after its argument: a last-scheduled time rounded up onto an occurrence (10:00:59.7 → 10:01:00) skips that occurrence.
// NewSchedule derives what it returns from its parameter through UTC, Truncate, Unix/time.Unix only — Round and Add do not occur.
func c17NoForward(c *core.Ctx) {
	c.Rule("C17.noforward", "A4: NewSchedule never moves the last-scheduled time forward: every time.Time it derives from its parameter is made with UTC, Truncate, Unix and time.Unix (all of which keep or lower the time); Round and Add do not occur — Next() is strictly after its argument, so a time rounded up onto an occurrence skips it")
	sp := c.P.Pkg("task/backend/scheduler")
	if sp == nil {
		return
	}
	info := sp.TypesInfo
	fn := c.Need("C17.noforward", "task/backend/scheduler", "", "NewSchedule")
	if fn == nil {
		return
	}
	c.Analysed(fn)
	bad := ""
	pos := token.NoPos
	n := 0
	ast.Inspect(fn.Decl.Body, func(nd ast.Node) bool {
		call, ok := nd.(*ast.CallExpr)
		if !ok {
			return true
		}
		sel, ok := call.Fun.(*ast.SelectorExpr)
		if !ok || !core.TypeIs(info.TypeOf(sel.X), "time", "Time") {
			return true
		}
		n++
		switch sel.Sel.Name {
		case "Round", "Add", "AddDate":
			bad, pos = sel.Sel.Name, call.Pos()
		}
		return true
	})
	c.Check(bad == "", "C17.noforward", "NewSchedule#normalise", pos, "NewSchedule applies %s to the last-scheduled time: a time in the last half second before an occurrence (a restart stamps active tasks with time.Now()) is moved onto the occurrence, Next() is strictly after its argument, and that run is skipped while the stored last-scheduled time has passed it", bad)
	c.Floor("C17.noforward", "time.Time method calls in NewSchedule", n, 3)
}

// c16TickPhase (seed C16-10-r4): the aligned ticker labels every tick with now.Round(every). That is the tick's own time only
// if the periodic ticker runs in phase with the boundaries, i.e. if it is created once the goroutine has waited for the first
// aligned boundary. Created earlier (in Start, when the task starts) its phase is the task's start time: ticks are issued up to
// half an interval before the boundary they are labelled with, or the first boundary is delivered twice.
func c16TickPhase(c *core.Ctx, root *packages.Package) {
	c.Rule("C16.tickphase", "A2 (order on every path of the aligned branch): in timeTicker.Start the periodic ticker of an aligned schedule is created inside the goroutine, behind the select that waits for the first aligned boundary: its phase is then the boundary's, and now.Round(every) is the tick's own time")
	info := root.TypesInfo
	fn := c.Need("C16.tickphase", "", "timeTicker", "Start")
	if fn == nil {
		return
	}
	c.Analysed(fn)
	// the aligned branch: the if statement that contains the go statement
	var lit *ast.FuncLit
	var branch *ast.BlockStmt
	ast.Inspect(fn.Decl.Body, func(n ast.Node) bool {
		is, ok := n.(*ast.IfStmt)
		if !ok {
			return true
		}
		ast.Inspect(is.Body, func(m ast.Node) bool {
			if g, ok := m.(*ast.GoStmt); ok {
				if fl, ok := g.Call.Fun.(*ast.FuncLit); ok {
					lit, branch = fl, is.Body
				}
			}
			return true
		})
		return true
	})
	if lit == nil {
		c.Undecided("C16.tickphase", "timeTicker.Start", fn.Decl.Pos(), "the goroutine of the aligned branch was not found")
		return
	}
	// the wait: the first select of the goroutine
	wait := token.NoPos
	ast.Inspect(lit.Body, func(n ast.Node) bool {
		if s, ok := n.(*ast.SelectStmt); ok && wait == token.NoPos {
			wait = s.End()
		}
		return true
	})
	// creations of the periodic ticker in the aligned branch
	n, bad := 0, token.NoPos
	ast.Inspect(branch, func(nd ast.Node) bool {
		as, ok := nd.(*ast.AssignStmt)
		if !ok || len(as.Lhs) != 1 || len(as.Rhs) != 1 || !an.FieldSel(info, as.Lhs[0], "timeTicker", "ticker") {
			return true
		}
		call, ok := as.Rhs[0].(*ast.CallExpr)
		if !ok {
			return true
		}
		if cal := core.Callee(info, call); cal == nil || cal.Name() != "NewTicker" {
			return true
		}
		n++
		inside := as.Pos() > lit.Body.Pos() && as.End() < lit.Body.End()
		if !inside || wait == token.NoPos || as.Pos() < wait {
			bad = as.Pos()
		}
		return true
	})
	if n == 0 {
		c.Undecided("C16.tickphase", "timeTicker.Start", fn.Decl.Pos(), "the aligned branch creates no periodic ticker")
		return
	}
	c.Check(bad == token.NoPos, "C16.tickphase", "timeTicker.Start#after-alignment", bad, "the aligned branch of timeTicker.Start creates the periodic ticker before the goroutine has waited for the first aligned boundary: the ticker's phase is the moment the task started, but every tick is labelled now.Round(every) — a task started 700ms into a 1s interval issues each tick 300ms before the boundary it names (the query covers a window that is not complete), one started 300ms in delivers the first boundary twice")
}

// c20Wiring (seed C20-10-r4): NewHandler takes five bools in a row; the compiler cannot tell them apart. Each configuration field
// that NewService passes for one of them is, by name, that parameter's field: its name (without "Enabled") shares a longer
// common substring with the name of the parameter at its position than with the name of any other bool parameter.
func c20Wiring(c *core.Ctx) {
	c.Rule("C20.wiring", "A3 (argument roles by name agreement): in every call of httpd.NewHandler each configuration field passed for a bool parameter matches the name of the parameter at its position better than the name of any other bool parameter (longest common substring, ignoring case and the word Enabled): pprof-enabled decides the debug routes, not write-tracing")
	sp := c.P.Pkg("services/httpd")
	if sp == nil {
		return
	}
	info := sp.TypesInfo
	nh := c.P.FindFunc("services/httpd", "", "NewHandler")
	if nh == nil {
		c.Undecided("C20.wiring", "anchor:NewHandler", token.NoPos, "function not found")
		return
	}
	var params []string
	var isBool []bool
	for _, fl := range nh.Decl.Type.Params.List {
		b := false
		if bt, ok := info.TypeOf(fl.Type).Underlying().(*types.Basic); ok && bt.Kind() == types.Bool {
			b = true
		}
		for _, nm := range fl.Names {
			params = append(params, nm.Name)
			isBool = append(isBool, b)
		}
	}
	norm := func(s string) string {
		s = strings.ToLower(s)
		s = strings.ReplaceAll(s, "enabled", "")
		s = strings.ReplaceAll(s, "enable", "")
		return s
	}
	lcs := func(a, b string) int {
		best := 0
		for i := 0; i < len(a); i++ {
			for j := 0; j < len(b); j++ {
				k := 0
				for i+k < len(a) && j+k < len(b) && a[i+k] == b[j+k] {
					k++
				}
				if k > best {
					best = k
				}
			}
		}
		return best
	}
	fo, _ := info.Defs[nh.Decl.Name].(*types.Func)
	n := 0
	for _, f := range core.AllFuncs(sp) {
		ast.Inspect(f.Decl.Body, func(nd ast.Node) bool {
			call, ok := nd.(*ast.CallExpr)
			if !ok || core.Callee(info, call) != fo || len(call.Args) != len(params) {
				return true
			}
			for i, a := range call.Args {
				if !isBool[i] {
					continue
				}
				sel, ok := ast.Unparen(a).(*ast.SelectorExpr)
				if !ok {
					continue // a literal
				}
				n++
				field := norm(sel.Sel.Name)
				own := lcs(field, norm(params[i]))
				better := ""
				for j, p := range params {
					if j != i && isBool[j] && lcs(field, norm(p)) > own {
						better = p
					}
				}
				c.Check(better == "", "C20.wiring", f.Decl.Name.Name+"#"+params[i], a.Pos(), "%s passes %s for NewHandler's parameter %s, although by name it is the setting of parameter %s: the bools of NewHandler are positional and of one type — with pprof-enabled and write-tracing exchanged, write-tracing = true serves /debug/vars and /debug/pprof/* without credentials while auth-enabled is true", f.Decl.Name.Name, types.ExprString(a), params[i], better)
			}
			return true
		})
	}
	c.Floor("C20.wiring", "configuration fields passed for bool parameters of NewHandler", n, 4)
}

// c19AgentWait (seed C19-10-r4): Agent.Wait returns only when both loops of the agent have reported. The wait-for-all idiom is a
// loop around a select whose arms receive from a channel and then set it to nil; the loop has to go on while ANY of those channels
// is still to be heard from: its condition is the disjunction of `<ch> != nil` over exactly the channels of the arms.
func c19AgentWait(c *core.Ctx) {
	c.Rule("C19.agentwait", "A6 (wait-for-all idiom): in Agent.Wait the loop around the select that receives the read loop's and the write loop's results and nils each channel continues while any of these channels is not nil (a disjunction over exactly the arms' channels): with a conjunction Wait returns after the first result, a process UDF exits while its last response is still being written, and the last point or the END of the last batch is lost")
	ap := c.P.Pkg("udf/agent")
	if ap == nil {
		return
	}
	info := ap.TypesInfo
	fn := c.Need("C19.agentwait", "udf/agent", "Agent", "Wait")
	if fn == nil {
		return
	}
	c.Analysed(fn)
	var loop *ast.ForStmt
	var sel *ast.SelectStmt
	ast.Inspect(fn.Decl.Body, func(n ast.Node) bool {
		if f, ok := n.(*ast.ForStmt); ok {
			for _, st := range an.Effective(f.Body.List) {
				if s, ok := st.(*ast.SelectStmt); ok {
					loop, sel = f, s
				}
			}
		}
		return true
	})
	if loop == nil {
		c.Undecided("C19.agentwait", "Agent.Wait", fn.Decl.Pos(), "no loop around a select found")
		return
	}
	// channels of the arms that are set to nil in their arm
	chans := map[string]bool{}
	for _, cl := range sel.Body.List {
		cc := cl.(*ast.CommClause)
		var recv ast.Expr
		switch x := cc.Comm.(type) {
		case *ast.AssignStmt:
			if len(x.Rhs) == 1 {
				if u, ok := ast.Unparen(x.Rhs[0]).(*ast.UnaryExpr); ok && u.Op == token.ARROW {
					recv = u.X
				}
			}
		case *ast.ExprStmt:
			if u, ok := ast.Unparen(x.X).(*ast.UnaryExpr); ok && u.Op == token.ARROW {
				recv = u.X
			}
		}
		if recv == nil {
			continue
		}
		text := types.ExprString(recv)
		for _, st := range cc.Body {
			if as, ok := st.(*ast.AssignStmt); ok && len(as.Lhs) == 1 && len(as.Rhs) == 1 && types.ExprString(as.Lhs[0]) == text && types.ExprString(as.Rhs[0]) == "nil" {
				chans[text] = true
			}
		}
	}
	_ = info
	// the condition: a disjunction of `<ch> != nil`
	got := map[string]bool{}
	pure := loop.Cond != nil
	var walk func(e ast.Expr)
	walk = func(e ast.Expr) {
		b, ok := ast.Unparen(e).(*ast.BinaryExpr)
		if !ok {
			pure = false
			return
		}
		switch b.Op {
		case token.LOR:
			walk(b.X)
			walk(b.Y)
		case token.NEQ:
			if types.ExprString(b.Y) == "nil" {
				got[types.ExprString(b.X)] = true
			} else {
				pure = false
			}
		default:
			pure = false
		}
	}
	if loop.Cond != nil {
		walk(loop.Cond)
	}
	same := pure && len(got) == len(chans) && len(chans) >= 2
	for k := range chans {
		if !got[k] {
			same = false
		}
	}
	cond := "none"
	if loop.Cond != nil {
		cond = types.ExprString(loop.Cond)
	}
	c.Check(same, "C19.agentwait", "Agent.Wait#wait-for-all", loop.Pos(), "Agent.Wait's loop runs under the condition %s, not while any of %v is still to be heard from: it ends after the first of the agent's two loops has reported — the read loop's result is already there when the handler is done, so Wait returns while the write loop has only just taken the last response; a process UDF (Start, Wait, exit) loses its last point, for a batch the END message and with it the whole last batch, and the write error is never reported", cond, an.SortedKeys(chans))
}

// c07ForkEdge (F125): the input edge of a stream task is closed by delFork(id). The edge that newFork creates must therefore be
// stored where delFork finds it for EVERY task: in a map keyed by the task's name, outside the loop over the fork keys (a task
// without a from node has no keys), and delFork must close what it finds there.
func c07ForkEdge(c *core.Ctx, root *packages.Package) {
	c.Rule("C07.forkedge", "A1: F125: newFork stores the edge it creates under the task's name on every path — not only inside the loop over the fork keys, which is empty for a stream task without a from node — and delFork closes the edge it finds under that name: otherwise the task's input never ends and StopTask/DeleteTask/Close never return")
	info := root.TypesInfo
	nf := c.Need("C07.forkedge", "", "TaskMaster", "newFork")
	df := c.Need("C07.forkedge", "", "TaskMaster", "delFork")
	if nf == nil || df == nil {
		return
	}
	c.Analysed(nf)
	c.Analysed(df)
	name := an.ParamName(nf.Decl.Type, 0)
	// the edge variable: the local assigned from newEdge(...)
	var edgeObj types.Object
	ast.Inspect(nf.Decl.Body, func(n ast.Node) bool {
		if as, ok := n.(*ast.AssignStmt); ok && len(as.Lhs) == 1 && len(as.Rhs) == 1 {
			if call, ok := as.Rhs[0].(*ast.CallExpr); ok {
				if cal := core.Callee(info, call); cal != nil && cal.Name() == "newEdge" {
					if id, ok := as.Lhs[0].(*ast.Ident); ok {
						edgeObj = info.Defs[id]
					}
				}
			}
		}
		return true
	})
	if edgeObj == nil {
		c.Undecided("C07.forkedge", "TaskMaster.newFork", nf.Decl.Pos(), "the edge created by newEdge was not found")
		return
	}
	// a store <field>[name] = e among the top-level statements (not inside a loop or condition)
	var byTask *types.Var
	for _, st := range nf.Decl.Body.List {
		as, ok := st.(*ast.AssignStmt)
		if !ok || len(as.Lhs) != 1 || len(as.Rhs) != 1 {
			continue
		}
		ix, ok := ast.Unparen(as.Lhs[0]).(*ast.IndexExpr)
		if !ok || types.ExprString(ix.Index) != name {
			continue
		}
		id, ok := ast.Unparen(as.Rhs[0]).(*ast.Ident)
		if !ok || info.Uses[id] != edgeObj {
			continue
		}
		if sel, ok := ast.Unparen(ix.X).(*ast.SelectorExpr); ok {
			if s, ok := info.Selections[sel]; ok && s.Kind() == types.FieldVal {
				byTask, _ = s.Obj().(*types.Var)
			}
		}
	}
	if byTask == nil {
		c.Fail("C07.forkedge", "TaskMaster.newFork#by-task", nf.Decl.Pos(), "newFork stores the edge it creates only inside the loop over the fork keys: a stream task without a from node (stream|stats(10s)|log()) has no keys, delFork finds nothing to close, the task waits for the end of its input for good — StopTask, DeleteTask and Close never return and hold up every later start and stop")
		return
	}
	c.Ok("C07.forkedge", "TaskMaster.newFork#by-task")
	// delFork closes what it finds there
	id := an.ParamName(df.Decl.Type, 0)
	closes := false
	ast.Inspect(df.Decl.Body, func(n ast.Node) bool {
		is, ok := n.(*ast.IfStmt)
		if !ok || is.Init == nil {
			return true
		}
		as, ok := is.Init.(*ast.AssignStmt)
		if !ok || len(as.Rhs) != 1 {
			return true
		}
		ix, ok := ast.Unparen(as.Rhs[0]).(*ast.IndexExpr)
		if !ok || types.ExprString(ix.Index) != id {
			return true
		}
		sel, ok := ast.Unparen(ix.X).(*ast.SelectorExpr)
		if !ok {
			return true
		}
		if s, ok := info.Selections[sel]; !ok || s.Obj() != byTask {
			return true
		}
		v, _ := as.Lhs[0].(*ast.Ident)
		ast.Inspect(is.Body, func(m ast.Node) bool {
			if call, ok := m.(*ast.CallExpr); ok {
				if cs, ok := call.Fun.(*ast.SelectorExpr); ok && cs.Sel.Name == "Close" && v != nil {
					if x, ok := ast.Unparen(cs.X).(*ast.Ident); ok && info.Uses[x] == info.Defs[v] {
						closes = true
					}
				}
			}
			return true
		})
		return true
	})
	c.Check(closes, "C07.forkedge", "TaskMaster.delFork#close-by-task", df.Decl.Pos(), "delFork does not close the edge stored under the task's name in %s: the edge of a fork without keys is never closed", byTask.Name())
}

// c13MarshalPure (F126): writing a node to JSON (or to text) does not change the node. In every MarshalJSON/MarshalText method
// of the pipeline and AST packages no statement stores through the receiver: not through the receiver itself, not through a
// local that was initialised with a slice, map or pointer of the receiver (raw.Args = n.Args; raw.Args[i] = … writes n.Args[i]),
// not through an embedded alias pointer of the receiver.
func c13MarshalPure(c *core.Ctx) {
	c.Rule("C13.marshalpure", "A9: F126: a MarshalJSON/MarshalText method does not store through its receiver — neither directly nor through a local (or a field of a local struct) that aliases a slice, map or pointer of the receiver: a pipeline written to JSON is the same pipeline afterwards (InfluxQLNode.MarshalJSON turned the duration arguments of the node itself into strings; the pipeline then rendered |elapsed('value', '3s'))")
	n := 0
	for _, rel := range []string{"pipeline", "tick/ast", "pipeline/tick"} {
		pkg := c.P.Pkg(rel)
		if pkg == nil {
			continue
		}
		info := pkg.TypesInfo
		for _, f := range core.AllFuncs(pkg) {
			if f.Decl.Recv == nil || f.Decl.Body == nil || (f.Decl.Name.Name != "MarshalJSON" && f.Decl.Name.Name != "MarshalText") {
				continue
			}
			if len(f.Decl.Recv.List) == 0 || len(f.Decl.Recv.List[0].Names) == 0 {
				n++
				c.Ok("C13.marshalpure", core.RecvName(f.Decl)+"."+f.Decl.Name.Name)
				continue
			}
			recv := info.Defs[f.Decl.Recv.List[0].Names[0]]
			if recv == nil {
				continue
			}
			c.Analysed(f)
			n++
			construct := core.RecvName(f.Decl) + "." + f.Decl.Name.Name
			bad, what := c13StoresThrough(info, f.Decl.Body, recv, nil)
			if bad != token.NoPos {
				c.Fail("C13.marshalpure", construct, bad, "%s stores through its receiver (%s): writing the node to JSON changes the node — what is rendered, written or run from the same pipeline afterwards is not what was defined", construct, what)
			} else {
				c.Ok("C13.marshalpure", construct)
			}
		}
	}
	c.Floor("C13.marshalpure", "MarshalJSON/MarshalText methods", n, 40)
	// the same for the two renderers: a Build method of pipeline/tick does not store through the pipeline node it renders,
	// a Format method of tick/ast does not store through the node it writes
	c.Rule("C13.renderpure", "A9: F126 class: rendering does not change what is rendered — a Build method of pipeline/tick does not store through the pipeline node it is given (no in-place sort of the node's slices, no element store), a Format method of tick/ast does not store through its receiver")
	m := 0
	if tp := c.P.Pkg("pipeline/tick"); tp != nil {
		for _, f := range core.AllFuncs(tp) {
			if f.Decl.Recv == nil || f.Decl.Body == nil || f.Decl.Name.Name != "Build" || len(f.Decl.Type.Params.List) == 0 || len(f.Decl.Type.Params.List[0].Names) == 0 {
				continue
			}
			root := tp.TypesInfo.Defs[f.Decl.Type.Params.List[0].Names[0]]
			if root == nil {
				continue
			}
			if _, ok := root.Type().Underlying().(*types.Pointer); !ok {
				continue
			}
			c.Analysed(f)
			m++
			construct := core.RecvName(f.Decl) + ".Build"
			if bad, what := c13StoresThrough(tp.TypesInfo, f.Decl.Body, root, nil); bad != token.NoPos {
				c.Fail("C13.renderpure", construct, bad, "%s stores through the pipeline node it renders (%s): rendering a pipeline to TICKscript changes the pipeline", construct, what)
			} else {
				c.Ok("C13.renderpure", construct)
			}
		}
	}
	if ap := c.P.Pkg("tick/ast"); ap != nil {
		for _, f := range core.AllFuncs(ap) {
			if f.Decl.Recv == nil || f.Decl.Body == nil || f.Decl.Name.Name != "Format" || len(f.Decl.Recv.List) == 0 || len(f.Decl.Recv.List[0].Names) == 0 {
				continue
			}
			root := ap.TypesInfo.Defs[f.Decl.Recv.List[0].Names[0]]
			if root == nil {
				continue
			}
			c.Analysed(f)
			m++
			construct := core.RecvName(f.Decl) + ".Format"
			exempted := ""
			bad, what := c13StoresThrough(ap.TypesInfo, f.Decl.Body, root, func(pos token.Pos, what string) bool {
				// read and verified: the store fills an empty cache field with the text about to be written
				if fld := c13MemoStore(ap.TypesInfo, f.Decl.Body, root, pos); fld != "" && c13RenderPureExempt[construct+"#"+fld] != "" {
					exempted = c13RenderPureExempt[construct+"#"+fld]
					return true
				}
				return false
			})
			if bad == token.NoPos && exempted != "" {
				c.Ok("C13.renderpure", construct, "exempt: "+exempted)
				continue
			}
			if bad != token.NoPos {
				c.Fail("C13.renderpure", construct, bad, "%s stores through the node it writes (%s): formatting a script changes its syntax tree", construct, what)
			} else {
				c.Ok("C13.renderpure", construct)
			}
		}
	}
	c.Floor("C13.renderpure", "Build and Format methods", m, 40)
}

// c13StoresThrough reports the first statement of body that stores through root: directly, through a local that aliases a
// slice, map or pointer reached from root, through a field of a local struct initialised with one, or by an in-place builtin
// or sort on such memory.
func c13StoresThrough(info *types.Info, body *ast.BlockStmt, recv types.Object, skip func(token.Pos, string) bool) (token.Pos, string) {
	f := struct{ Decl struct{ Body *ast.BlockStmt } }{}
	f.Decl.Body = body
	refLike := func(e ast.Expr) bool {
		t := info.TypeOf(e)
		if t == nil {
			return false
		}
		switch t.Underlying().(type) {
		case *types.Basic:
			return false
		}
		return true
	}
	aliasVar := map[types.Object]bool{}
	type lf struct {
		l types.Object
		f string
	}
	fieldRooted := map[lf]int{}
	fieldOther := map[lf]int{}
	// the name of the first embedded hop of a promoted selection, "" otherwise
	firstHop := func(sel *ast.SelectorExpr) string {
		s, ok := info.Selections[sel]
		if !ok || len(s.Index()) < 2 {
			return ""
		}
		t := s.Recv()
		if p, ok := t.Underlying().(*types.Pointer); ok {
			t = p.Elem()
		}
		if st, ok := t.Underlying().(*types.Struct); ok && s.Index()[0] < st.NumFields() {
			return st.Field(s.Index()[0]).Name()
		}
		return ""
	}
	var rooted func(e ast.Expr) bool
	rooted = func(e ast.Expr) bool {
		switch x := e.(type) {
		case *ast.Ident:
			o := info.Uses[x]
			return o != nil && (o == recv || aliasVar[o])
		case *ast.SelectorExpr:
			if id, ok := ast.Unparen(x.X).(*ast.Ident); ok {
				if o := info.Uses[id]; o != nil && o != recv && !aliasVar[o] {
					k := lf{o, x.Sel.Name}
					if h := firstHop(x); h != "" {
						k = lf{o, h}
					}
					return fieldRooted[k] > 0 && fieldOther[k] == 0
				}
			}
			return rooted(x.X)
		case *ast.IndexExpr:
			return rooted(x.X)
		case *ast.SliceExpr:
			return rooted(x.X)
		case *ast.StarExpr:
			return rooted(x.X)
		case *ast.ParenExpr:
			return rooted(x.X)
		case *ast.UnaryExpr:
			return x.Op == token.AND && rooted(x.X)
		case *ast.CallExpr:
			if tv, ok := info.Types[x.Fun]; ok && tv.IsType() && len(x.Args) == 1 {
				return rooted(x.Args[0])
			}
		}
		return false
	}
	// two passes: aliases may be chained
	for pass := 0; pass < 3; pass++ {
		fieldRooted, fieldOther = map[lf]int{}, map[lf]int{}
		bind := func(lhs ast.Expr, rhs ast.Expr) {
			r := rhs != nil && refLike(rhs) && rooted(rhs)
			switch l := ast.Unparen(lhs).(type) {
			case *ast.Ident:
				o := info.Defs[l]
				if o == nil {
					o = info.Uses[l]
				}
				if o != nil && o != recv && r {
					aliasVar[o] = true
				}
				// a composite literal (or its address) bound to a local: its fields
				cl := rhs
				if u, ok := cl.(*ast.UnaryExpr); ok && u.Op == token.AND {
					cl = u.X
				}
				if lit, ok := cl.(*ast.CompositeLit); ok && o != nil {
					for _, el := range lit.Elts {
						if kv, ok := el.(*ast.KeyValueExpr); ok {
							if k, ok := kv.Key.(*ast.Ident); ok {
								if refLike(kv.Value) && rooted(kv.Value) {
									fieldRooted[lf{o, k.Name}]++
								} else {
									fieldOther[lf{o, k.Name}]++
								}
							}
						}
					}
				}
			case *ast.SelectorExpr:
				if id, ok := ast.Unparen(l.X).(*ast.Ident); ok {
					if o := info.Uses[id]; o != nil && o != recv && !aliasVar[o] && firstHop(l) == "" {
						if r {
							fieldRooted[lf{o, l.Sel.Name}]++
						} else {
							fieldOther[lf{o, l.Sel.Name}]++
						}
					}
				}
			}
		}
		ast.Inspect(f.Decl.Body, func(nd ast.Node) bool {
			switch s := nd.(type) {
			case *ast.AssignStmt:
				if len(s.Lhs) == len(s.Rhs) {
					for i := range s.Lhs {
						bind(s.Lhs[i], s.Rhs[i])
					}
				}
			case *ast.ValueSpec:
				if len(s.Names) == len(s.Values) {
					for i := range s.Names {
						bind(s.Names[i], s.Values[i])
					}
				}
			case *ast.RangeStmt:
				if s.Value != nil && s.Tok == token.DEFINE && rooted(s.X) {
					if id, ok := s.Value.(*ast.Ident); ok {
						if o := info.Defs[id]; o != nil {
							if _, basic := o.Type().Underlying().(*types.Basic); !basic {
								if _, iface := o.Type().Underlying().(*types.Interface); !iface {
									aliasVar[o] = true
								}
							}
						}
					}
				}
			}
			return true
		})
	}
	// stores
	bad := token.NoPos
	what := ""
	through := func(lhs ast.Expr) bool {
		switch l := ast.Unparen(lhs).(type) {
		case *ast.SelectorExpr:
			if id, ok := ast.Unparen(l.X).(*ast.Ident); ok {
				if o := info.Uses[id]; o != nil && o != recv && !aliasVar[o] {
					if h := firstHop(l); h != "" {
						k := lf{o, h}
						return fieldRooted[k] > 0 && fieldOther[k] == 0
					}
					return false // a field of a local struct
				}
			}
			return rooted(l.X)
		case *ast.IndexExpr:
			return rooted(l.X)
		case *ast.StarExpr:
			return rooted(l.X)
		}
		return false
	}
	ast.Inspect(f.Decl.Body, func(nd ast.Node) bool {
		if bad != token.NoPos && (skip == nil || !skip(bad, what)) {
			return false
		}
		switch s := nd.(type) {
		case *ast.AssignStmt:
			for _, l := range s.Lhs {
				if through(l) {
					bad, what = l.Pos(), types.ExprString(l)
				}
			}
		case *ast.IncDecStmt:
			if through(s.X) {
				bad, what = s.X.Pos(), types.ExprString(s.X)
			}
		case *ast.CallExpr:
			// copy(dst, …), sort.*(x), delete(m, k) on memory of the receiver
			if core.IsBuiltin(info, s, "copy") || core.IsBuiltin(info, s, "delete") || core.IsBuiltin(info, s, "clear") {
				if len(s.Args) > 0 && rooted(s.Args[0]) {
					bad, what = s.Pos(), types.ExprString(s)
				}
			}
			if cal := core.Callee(info, s); cal != nil && cal.Pkg() != nil && (cal.Pkg().Path() == "sort" || cal.Pkg().Path() == "slices") && len(s.Args) > 0 && rooted(s.Args[0]) {
				switch cal.Name() {
				case "Sort", "Stable", "Strings", "Ints", "Float64s", "Slice", "SliceStable", "SortFunc", "SortStableFunc", "Reverse":
					bad, what = s.Pos(), types.ExprString(s)
				}
			}
		}
		return true
	})
	if bad != token.NoPos && skip != nil && skip(bad, what) {
		return token.NoPos, ""
	}
	return bad, what
}

// c13RenderPureExempt: stores of a Format method that were read and do not change what the node denotes. Each is accepted
// only in the shape c13MemoStore verifies (the store stands under `if <the same field> == ""`).
var c13RenderPureExempt = map[string]string{
	"DurationNode.Format#Literal": "the literal of a duration node built without source text is filled in with the text Format is about to write; Equal compares Dur only and the parser always sets Literal",
}

// c13MemoStore: the store at pos assigns a field of root and stands directly under an if whose condition is
// `<root>.<that field> == ""`; the name of the field, "" otherwise.
func c13MemoStore(info *types.Info, body *ast.BlockStmt, root types.Object, pos token.Pos) string {
	ok := ""
	ast.Inspect(body, func(n ast.Node) bool {
		is, isIf := n.(*ast.IfStmt)
		if !isIf || is.Init != nil || is.Else != nil {
			return true
		}
		be, isBin := ast.Unparen(is.Cond).(*ast.BinaryExpr)
		if !isBin || be.Op != token.EQL {
			return true
		}
		if bl, isLit := ast.Unparen(be.Y).(*ast.BasicLit); !isLit || bl.Value != `""` {
			return true
		}
		csel, isSel := ast.Unparen(be.X).(*ast.SelectorExpr)
		if !isSel {
			return true
		}
		if id, isID := ast.Unparen(csel.X).(*ast.Ident); !isID || info.Uses[id] != root {
			return true
		}
		for _, st := range an.Effective(is.Body.List) {
			if as, isAs := st.(*ast.AssignStmt); isAs && len(as.Lhs) == 1 && as.Lhs[0].Pos() == pos {
				if lsel, isSel := ast.Unparen(as.Lhs[0]).(*ast.SelectorExpr); isSel && info.Selections[lsel] != nil && info.Selections[csel] != nil && info.Selections[lsel].Obj() == info.Selections[csel].Obj() {
					ok = lsel.Sel.Name
				}
			}
		}
		return true
	})
	return ok
}
