// Package props holds one file per property: its rule instances and the
// reference tables (the oracle) they are compared with.
package props

import (
	"sort"

	"kapcheck/core"
)

// Property is one claimed property and the code that decides its structural clauses.
type Property struct {
	ID               string
	Patterns         []string // packages loaded in the quick tier
	ThoroughPatterns []string // packages loaded in the thorough tier (default: Patterns)
	Run              func(*core.Ctx)
	Thorough         func(*core.Ctx) // extra work in the thorough tier (wider sweep, self-test)
	Explanation      string
	Assumptions      []string
}

var registry = map[string]*Property{}

func register(p *Property) { registry[p.ID] = p }

func Get(id string) *Property { return registry[id] }

func All() []*Property {
	var out []*Property
	for _, p := range registry {
		out = append(out, p)
	}
	sort.Slice(out, func(i, j int) bool { return out[i].ID < out[j].ID })
	return out
}
