package props

import (
	"go/ast"
	"go/token"
	"go/types"
	"sort"
	"strings"

	"kapcheck/an"
	"kapcheck/core"
)

// ruleEscape: sender/receiver escape agreement on the channel fields of one type.
// If the loop that receives from channel field X can leave on a receive from
// channel field E (a `case <-s.E: return` next to `case … <-s.X`), then after
// E fired nobody drains X any more, so every send on X must be able to leave
// on E as well (a select with a `case <-s.E`, or a default). A sender lacking
// the escape blocks forever once the receiver is gone.
func ruleEscape(c *core.Ctx, rule, rel, typ string) {
	c.Rule(rule, "A2 (sender/receiver escape agreement) on "+typ+": every send on a channel field sits in a select that can also leave on each channel on which that field's receiving loop returns (or has a default); otherwise the sender blocks forever once the receiver has stopped")
	pkg := c.P.Pkg(rel)
	if pkg == nil {
		c.Undecided(rule, "anchor:"+rel, token.NoPos, "package not loaded")
		return
	}
	info := pkg.TypesInfo
	chanField := func(x ast.Expr) string {
		sel, ok := ast.Unparen(x).(*ast.SelectorExpr)
		if !ok {
			return ""
		}
		if !an.FieldSel(info, sel, typ, sel.Sel.Name) {
			return ""
		}
		if tv, ok := info.Types[sel]; ok {
			if _, isChan := tv.Type.Underlying().(*types.Chan); isChan {
				return sel.Sel.Name
			}
		}
		return ""
	}
	recvOf := func(comm ast.Stmt) string {
		var x ast.Expr
		switch s := comm.(type) {
		case *ast.ExprStmt:
			x = s.X
		case *ast.AssignStmt:
			if len(s.Rhs) == 1 {
				x = s.Rhs[0]
			}
		}
		if u, ok := ast.Unparen(x).(*ast.UnaryExpr); ok && u.Op == token.ARROW {
			return chanField(u.X)
		}
		return ""
	}
	returns := func(body []ast.Stmt) bool {
		r := false
		for _, s := range body {
			ast.Inspect(s, func(n ast.Node) bool {
				switch n.(type) {
				case *ast.FuncLit, *ast.SelectStmt:
					return false
				case *ast.ReturnStmt:
					r = true
				}
				return true
			})
		}
		return r
	}
	exits := map[string]map[string]bool{} // X -> exit channels of its receivers
	type sender struct {
		fn      string
		x       string
		escapes map[string]bool
		deflt   bool
		pos     token.Pos
	}
	var senders []sender
	for _, f := range core.AllFuncs(pkg) {
		if core.RecvName(f.Decl) != typ {
			continue
		}
		// selects
		inSelect := map[ast.Stmt]bool{}
		ast.Inspect(f.Decl.Body, func(n ast.Node) bool {
			sel, ok := n.(*ast.SelectStmt)
			if !ok {
				return true
			}
			var recvs []string
			leave := map[string]bool{}
			deflt := false
			for _, cl := range sel.Body.List {
				cc := cl.(*ast.CommClause)
				if cc.Comm == nil {
					deflt = true
					continue
				}
				inSelect[cc.Comm] = true
				if r := recvOf(cc.Comm); r != "" {
					recvs = append(recvs, r)
					if returns(cc.Body) {
						leave[r] = true
					}
				}
			}
			for _, r := range recvs {
				if leave[r] {
					continue
				}
				// r is consumed in this select and the select can leave on `leave`
				if exits[r] == nil {
					exits[r] = map[string]bool{}
				}
				for e := range leave {
					exits[r][e] = true
				}
			}
			for _, cl := range sel.Body.List {
				cc := cl.(*ast.CommClause)
				if snd, ok := cc.Comm.(*ast.SendStmt); ok {
					if x := chanField(snd.Chan); x != "" {
						esc := map[string]bool{}
						for _, r := range recvs {
							esc[r] = true
						}
						senders = append(senders, sender{f.Decl.Name.Name, x, esc, deflt, snd.Pos()})
					}
				}
			}
			return true
		})
		// bare sends
		ast.Inspect(f.Decl.Body, func(n ast.Node) bool {
			if snd, ok := n.(*ast.SendStmt); ok && !inSelect[snd] {
				if x := chanField(snd.Chan); x != "" {
					senders = append(senders, sender{f.Decl.Name.Name, x, map[string]bool{}, false, snd.Pos()})
				}
			}
			return true
		})
	}
	n := 0
	for _, s := range senders {
		need := exits[s.x]
		if len(need) == 0 {
			continue // received outside this type (or never leaves): nothing to agree with
		}
		n++
		var missing []string
		for e := range need {
			if !s.escapes[e] {
				missing = append(missing, e)
			}
		}
		sort.Strings(missing)
		cons := typ + "." + s.fn + "#send:" + s.x
		c.Check(s.deflt || len(missing) == 0, rule, cons, s.pos, "the send on %s cannot leave on %s, although the loop receiving from %s returns on %s: once that has fired nobody receives and this sender blocks forever (a stop or task shutdown never completes)", s.x, strings.Join(missing, ","), s.x, strings.Join(missing, ","))
	}
	c.Floor(rule, "sends with a receiver-side exit in "+typ, n, 1)
}
