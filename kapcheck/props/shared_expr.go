package props

import (
	"go/ast"
	"go/token"
	"go/types"
	"golang.org/x/tools/go/packages"
	"strings"

	"kapcheck/an"
	"kapcheck/core"
)

// ruleCopyReset: stateful.expression.CopyReset must hand out an expression whose
// execution state (the per-expression instances of stateful functions) is a
// fresh CreateExecutionState(), never the receiver's; CreateExecutionState must
// allocate a fresh function table. Shared by C04 and C06.
func ruleCopyReset(c *core.Ctx, rule string) {
	c.Rule(rule, "A3/A4: expression.CopyReset returns an expression whose executionState is a fresh CreateExecutionState() (not the receiver's, not a struct copy that aliases its Funcs map); CreateExecutionState allocates its function table; NewExpression likewise")
	pkg := c.P.Pkg("tick/stateful")
	if pkg == nil {
		c.Undecided(rule, "anchor:tick/stateful", token.NoPos, "package not loaded")
		return
	}
	info := pkg.TypesInfo
	for _, name := range []string{"CopyReset"} {
		fn := c.Need(rule, "tick/stateful", "expression", name)
		if fn == nil {
			continue
		}
		eng := &an.Engine{Prog: c.P,
			TrackStore: func(lhs ast.Expr, key string) string {
				if an.FieldSel(info, lhs, "expression", "executionState") {
					return "setstate"
				}
				return ""
			}}
		paths, err := eng.Run(fn)
		if err != nil {
			c.Undecided(rule, "expression."+name, fn.Decl.Pos(), "%v", err)
			continue
		}
		good := len(paths) > 0
		for _, p := range paths {
			if len(p.RetX) != 1 {
				continue
			}
			fresh := false
			// form 1: a literal with executionState: CreateExecutionState()
			x := ast.Unparen(p.RetX[0])
			if id, ok := x.(*ast.Ident); ok {
				if l := resolveLit(fn, id); l != nil {
					x = l
				}
			}
			fl := an.FlattenLit(x)
			if v, ok := fl["executionState"]; ok {
				if call, ok := ast.Unparen(v).(*ast.CallExpr); ok {
					if f := core.Callee(info, call); f != nil && f.Name() == "CreateExecutionState" {
						fresh = true
					}
				}
			}
			// form 2: an explicit store of a fresh state into the value returned
			for _, e := range p.Events {
				if e.Kind == "store" && e.Name == "setstate" && strings.HasSuffix(e.Args[0], "CreateExecutionState()") {
					fresh = true
				}
			}
			if !fresh {
				good = false
				c.Fail(rule, "expression."+name+"#fresh-state", p.RetPos, "the expression returned (%s) does not get a fresh CreateExecutionState(): stateful functions (count, sigma, spread…) would be shared with, and reset by, other groups", p.Rets[0])
			}
		}
		if good {
			c.Ok(rule, "expression."+name+"#fresh-state")
		}
	}
	// CreateExecutionState returns ExecutionState{Funcs: <fresh allocation>}
	if fn := c.Need(rule, "tick/stateful", "", "CreateExecutionState"); fn != nil {
		good := false
		ast.Inspect(fn.Decl.Body, func(n ast.Node) bool {
			if r, ok := n.(*ast.ReturnStmt); ok && len(r.Results) == 1 {
				fl := an.FlattenLit(r.Results[0])
				if v, ok := fl["Funcs"]; ok {
					if call, ok := ast.Unparen(v).(*ast.CallExpr); ok {
						if core.IsBuiltin(info, call, "make") {
							good = true
						} else if f := core.Callee(info, call); f != nil && f.Name() == "NewFunctions" {
							good = true
						}
					}
				}
			}
			return true
		})
		c.Check(good, rule, "CreateExecutionState#fresh-table", fn.Decl.Pos(), "CreateExecutionState must allocate a new function table (NewFunctions()/make) for every state")
	}
	ruleSharedTable(c, rule, pkg)
	// NewFunctions builds a new map with new function instances (no package-level instance shared)
	if fn := c.Need(rule, "tick/stateful", "", "NewFunctions"); fn != nil {
		bad := false
		n := 0
		ast.Inspect(fn.Decl.Body, func(nd ast.Node) bool {
			as, ok := nd.(*ast.AssignStmt)
			if !ok || len(as.Lhs) != 1 || len(as.Rhs) != 1 {
				return true
			}
			if _, ok := as.Lhs[0].(*ast.IndexExpr); !ok {
				return true
			}
			n++
			// the value stored must be a fresh allocation: &T{…}, T{…}, new(T) or a constructor call — not a package-level variable
			rhs := ast.Unparen(as.Rhs[0])
			addr := false
			if u, ok := rhs.(*ast.UnaryExpr); ok && u.Op == token.AND {
				// &pkgVar: the address of one package-level value is one instance for every table
				if id, ok := ast.Unparen(u.X).(*ast.Ident); ok {
					rhs, addr = id, true
				}
			}
			switch v := rhs.(type) {
			case *ast.Ident:
				if vr, ok := info.Uses[v].(*types.Var); ok && vr.Parent() == pkg.Types.Scope() {
					if _, isStateless := stateless(info, vr); !isStateless || addr {
						bad = true
						c.Fail(rule, "NewFunctions#shared-instance:"+v.Name, as.Pos(), "function table entry is (the address of) the package-level instance %s, shared by every expression and every group: a stateful function's running state (spread's range, count's counter) then includes the points of other groups and tasks, and Reset resets it for all of them", v.Name)
					}
				}
			}
			return true
		})
		if !bad && n > 0 {
			c.Ok(rule, "NewFunctions#fresh-instances")
		}
	}
}

// ruleSharedTable: what is registered in the table every execution state shares (statelessFuncs: NewFunctions copies its entries
// by reference) must have no state: the entry's type declares so by an empty Reset() (a type that has something to reset is
// stateful: spread, count, sigma). Called from ruleCopyReset.
func ruleSharedTable(c *core.Ctx, rule string, pkg *packages.Package) {
	info := pkg.TypesInfo
	resetEmpty := map[*types.TypeName]bool{}
	for _, f := range core.AllFuncs(pkg) {
		if f.Decl.Recv == nil || f.Decl.Name.Name != "Reset" {
			continue
		}
		t := info.TypeOf(f.Decl.Recv.List[0].Type)
		if p, ok := t.(*types.Pointer); ok {
			t = p.Elem()
		}
		if nn := core.NamedOf(t); nn != nil {
			resetEmpty[nn.Obj()] = len(an.Effective(f.Decl.Body.List)) == 0
		}
	}
	n := 0
	for _, f := range core.AllFuncs(pkg) {
		ast.Inspect(f.Decl.Body, func(nd ast.Node) bool {
			as, ok := nd.(*ast.AssignStmt)
			if !ok || len(as.Lhs) != 1 || len(as.Rhs) != 1 {
				return true
			}
			ix, ok := as.Lhs[0].(*ast.IndexExpr)
			if !ok {
				return true
			}
			id, ok := ast.Unparen(ix.X).(*ast.Ident)
			if !ok {
				return true
			}
			v, ok := info.Uses[id].(*types.Var)
			if !ok || v.Parent() != pkg.Types.Scope() || v.Name() != "statelessFuncs" {
				return true
			}
			n++
			t := info.TypeOf(as.Rhs[0])
			if p, ok := t.(*types.Pointer); ok {
				t = p.Elem()
			}
			nn := core.NamedOf(t)
			if nn == nil {
				return true
			}
			empty, known := resetEmpty[nn.Obj()]
			if known && !empty {
				c.Fail(rule, "statelessFuncs#stateful-entry:"+nn.Obj().Name(), as.Pos(), "a %s is registered in the table that every execution state shares by reference, but its Reset() has something to reset: it is stateful, so all groups, all expressions and all tasks of the process share its running state (a group's spread() then spans the values of the other groups)", nn.Obj().Name())
			}
			return true
		})
	}
	c.Floor(rule, "entries of the shared function table", n, 30)
}

// stateless: a package-level function value whose type has no fields cannot carry state.
func stateless(info *types.Info, v *types.Var) (string, bool) {
	t := v.Type()
	if p, ok := t.Underlying().(*types.Pointer); ok {
		t = p.Elem()
	}
	if st, ok := t.Underlying().(*types.Struct); ok && st.NumFields() == 0 {
		return v.Name(), true
	}
	return "", false
}
