package props

import (
	"go/ast"
	"go/token"

	"golang.org/x/tools/go/packages"

	"kapcheck/an"
	"kapcheck/core"
)

// guardSpec: fields of a struct that must only be touched with a mutex field held.
type guardSpec struct {
	typ      string          // struct type name
	mu       string          // mutex field
	fields   map[string]bool // guarded fields
	requires map[string]bool // methods of typ documented to need the lock held by the caller
	exempt   map[string]string
}

// ruleGuardedBy is the syntactic lockset rule shared by several properties:
// in every function of the package, an access to a guarded field must be
// preceded (in source order, same function) by a Lock/RLock of the mutex, or
// the function is a lock-requiring helper all of whose call sites satisfy the
// same condition. Constructors listed in exempt are skipped (unpublished object).
func ruleGuardedBy(c *core.Ctx, rule string, pkg *packages.Package, g guardSpec) {
	info := pkg.TypesInfo
	type acc struct {
		fn  *core.Func
		pos token.Pos
		f   string
	}
	holds := map[string]bool{}
	var accesses []acc
	calls := map[string][]acc{}
	for _, f := range core.AllFuncs(pkg) {
		name := f.Decl.Name.Name
		lockPos := token.NoPos
		ast.Inspect(f.Decl.Body, func(n ast.Node) bool {
			call, ok := n.(*ast.CallExpr)
			if !ok {
				return true
			}
			if sel, ok := call.Fun.(*ast.SelectorExpr); ok && (sel.Sel.Name == "Lock" || sel.Sel.Name == "RLock") && an.FieldSel(info, sel.X, g.typ, g.mu) {
				if lockPos == token.NoPos || call.Pos() < lockPos {
					lockPos = call.Pos()
				}
			}
			if callee := core.Callee(info, call); callee != nil && core.RecvTypeName(callee) == g.typ && g.requires[callee.Name()] && callee.Pkg() == pkg.Types {
				calls[callee.Name()] = append(calls[callee.Name()], acc{f, call.Pos(), callee.Name()})
			}
			return true
		})
		if lockPos != token.NoPos {
			holds[f.Name()] = true
		}
		if _, ex := g.exempt[name]; ex {
			continue
		}
		ast.Inspect(f.Decl.Body, func(n ast.Node) bool {
			sel, ok := n.(*ast.SelectorExpr)
			if !ok || !g.fields[sel.Sel.Name] || !an.FieldSel(info, sel, g.typ, sel.Sel.Name) {
				return true
			}
			// a composite literal key (T{field: …}) is not an access; selectors only
			if lockPos != token.NoPos && sel.Pos() > lockPos {
				return true
			}
			accesses = append(accesses, acc{f, sel.Pos(), sel.Sel.Name})
			return true
		})
	}
	reported := map[string]bool{}
	nAcc := 0
	for _, a := range accesses {
		nAcc++
		if core.RecvName(a.fn.Decl) == g.typ && g.requires[a.fn.Decl.Name.Name] {
			continue
		}
		k := a.fn.Name() + "." + a.f
		if !reported[k] {
			reported[k] = true
			c.Fail(rule, k, a.pos, "%s.%s is accessed in %s without %s.%s held (no Lock/RLock precedes the access in the function and it is not a documented lock-requiring helper)", g.typ, a.f, a.fn.Name(), g.typ, g.mu)
		}
	}
	nCalls := 0
	for _, rq := range an.SortedKeys(calls) {
		for _, cs := range calls[rq] {
			nCalls++
			okk := holds[cs.fn.Name()] || (core.RecvName(cs.fn.Decl) == g.typ && g.requires[cs.fn.Decl.Name.Name])
			c.Check(okk, rule, "call:"+cs.fn.Name()+"→"+g.typ+"."+rq, cs.pos, "%s.%s requires %s held but is called from %s, which neither locks it nor requires it itself", g.typ, rq, g.mu, cs.fn.Name())
		}
	}
	// every function that locks and touches the fields is one discharged obligation
	for _, f := range core.AllFuncs(pkg) {
		if holds[f.Name()] {
			touches := false
			ast.Inspect(f.Decl.Body, func(n ast.Node) bool {
				if sel, ok := n.(*ast.SelectorExpr); ok && g.fields[sel.Sel.Name] && an.FieldSel(info, sel, g.typ, sel.Sel.Name) {
					touches = true
				}
				return true
			})
			if touches && !reportedPrefix(reported, f.Name()+".") {
				c.Ok(rule, f.Name())
			}
		}
	}
}

func reportedPrefix(m map[string]bool, p string) bool {
	for k := range m {
		if len(k) >= len(p) && k[:len(p)] == p {
			return true
		}
	}
	return false
}
