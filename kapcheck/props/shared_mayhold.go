package props

import (
	"go/ast"
	"go/types"
	"sort"

	"golang.org/x/tools/go/cfg"
)

// mayHoldAtCalls: forward may-hold analysis over go/cfg for the mutex fields of the named type typ: for every call expression
// of body (function literals excluded: they run elsewhere) the set of mutex fields that may be held when the call is made.
// x.f.Lock()/RLock() adds f, a non-deferred Unlock()/RUnlock() removes it, a deferred unlock keeps it until the function returns.
// entry is what the callers may hold.
func mayHoldAtCalls(info *types.Info, body *ast.BlockStmt, typ string, entry map[string]bool) map[*ast.CallExpr]map[string]bool {
	out := map[*ast.CallExpr]map[string]bool{}
	g := cfg.New(body, func(*ast.CallExpr) bool { return true })
	if len(g.Blocks) == 0 {
		return out
	}
	clone := func(s map[string]bool) map[string]bool {
		o := make(map[string]bool, len(s))
		for k := range s {
			o[k] = true
		}
		return o
	}
	in := make([]map[string]bool, len(g.Blocks))
	reached := make([]bool, len(g.Blocks))
	in[0] = clone(entry)
	reached[0] = true
	apply := func(b *cfg.Block, st map[string]bool, record bool) map[string]bool {
		st = clone(st)
		for _, nd := range b.Nodes {
			if _, ok := nd.(*ast.DeferStmt); ok {
				continue
			}
			var calls []*ast.CallExpr
			ast.Inspect(nd, func(n ast.Node) bool {
				switch x := n.(type) {
				case *ast.FuncLit:
					return false
				case *ast.CallExpr:
					calls = append(calls, x)
				}
				return true
			})
			sort.SliceStable(calls, func(i, j int) bool { return calls[i].End() < calls[j].End() })
			for _, call := range calls {
				if f, op := mutexFieldOp(info, call, typ); f != "" {
					if op == "+" {
						st[f] = true
					} else {
						delete(st, f)
					}
					continue
				}
				if record {
					if prev, ok := out[call]; ok {
						for k := range st {
							prev[k] = true
						}
					} else {
						out[call] = clone(st)
					}
				}
			}
		}
		return st
	}
	work := []*cfg.Block{g.Blocks[0]}
	for steps := 0; len(work) > 0 && steps < 100000; steps++ {
		b := work[0]
		work = work[1:]
		o := apply(b, in[b.Index], false)
		for _, s := range b.Succs {
			if !reached[s.Index] {
				reached[s.Index] = true
				in[s.Index] = clone(o)
				work = append(work, s)
				continue
			}
			grew := false
			for k := range o {
				if !in[s.Index][k] {
					in[s.Index][k] = true
					grew = true
				}
			}
			if grew {
				work = append(work, s)
			}
		}
	}
	for _, b := range g.Blocks {
		if reached[b.Index] {
			apply(b, in[b.Index], true)
		}
	}
	return out
}
