package props

import (
	"fmt"
	"go/ast"
	"go/token"
	"go/types"
	"os"
	"strings"

	"golang.org/x/tools/go/packages"

	"kapcheck/an"
	"kapcheck/core"
)

// isTxType: the storage transaction interfaces (and their concrete implementations are not needed: calls go through the interfaces).
func isTxType(t types.Type) bool {
	n := core.NamedOf(t)
	if n == nil || n.Obj().Pkg() == nil || !strings.HasSuffix(n.Obj().Pkg().Path(), "services/storage") {
		return false
	}
	switch n.Obj().Name() {
	case "Tx", "ReadOnlyTx", "ReadOperator", "WriteOperator":
		return true
	}
	return false
}

// txBodies lists the bodies in a package that run inside a storage transaction:
// closures/functions that have a parameter of a transaction interface type.
type txBody struct {
	name string
	ft   *ast.FuncType
	body *ast.BlockStmt
	pos  token.Pos
}

func txBodies(pkg *packages.Package) []txBody {
	info := pkg.TypesInfo
	var out []txBody
	hasTx := func(ft *ast.FuncType) bool {
		if ft.Params == nil {
			return false
		}
		for _, p := range ft.Params.List {
			if tv, ok := info.Types[p.Type]; ok && isTxType(tv.Type) {
				return true
			}
		}
		return false
	}
	for _, f := range core.AllFuncs(pkg) {
		if hasTx(f.Decl.Type) {
			out = append(out, txBody{f.Name(), f.Decl.Type, f.Decl.Body, f.Decl.Pos()})
		}
		n := 0
		ast.Inspect(f.Decl.Body, func(nd ast.Node) bool {
			if fl, ok := nd.(*ast.FuncLit); ok && hasTx(fl.Type) {
				n++
				name := f.Name() + "#tx"
				if n > 1 {
					name += string(rune('0' + n))
				}
				out = append(out, txBody{name, fl.Type, fl.Body, fl.Pos()})
			}
			return true
		})
	}
	return out
}

// ruleTxErr is analysis A10: inside every transaction body of the package, an
// error returned by a method of the transaction interface (Put, Delete, Get,
// List, Exists) must (a) not be discarded and (b) on the path where it was
// found non-nil, make the body return a non-nil error — a body that returns
// nil commits. exempt: body names whose named call may fail harmlessly (one line of reason each).
func ruleTxErr(c *core.Ctx, rule string, pkg *packages.Package, exempt map[string]string) int {
	info := pkg.TypesInfo
	isTxCall := func(call *ast.CallExpr) (string, bool) {
		sel, ok := ast.Unparen(call.Fun).(*ast.SelectorExpr)
		if !ok {
			return "", false
		}
		s, ok := info.Selections[sel]
		if !ok || !isTxType(s.Recv()) {
			return "", false
		}
		fn, ok := s.Obj().(*types.Func)
		if !ok {
			return "", false
		}
		sig := fn.Type().(*types.Signature)
		if sig.Results().Len() == 0 {
			return "", false
		}
		last := sig.Results().At(sig.Results().Len() - 1).Type()
		if !types.Identical(last, types.Universe.Lookup("error").Type()) {
			return "", false
		}
		return fn.Name(), true
	}
	bodies := txBodies(pkg)
	n := 0
	for _, b := range bodies {
		c.AnalysedName(b.name)
		// (a) discarded results
		bad := false
		ast.Inspect(b.body, func(nd ast.Node) bool {
			switch x := nd.(type) {
			case *ast.FuncLit:
				return x.Body == b.body
			case *ast.ExprStmt:
				if call, ok := x.X.(*ast.CallExpr); ok {
					if name, ok := isTxCall(call); ok {
						n++
						if _, ex := exempt[b.name+"."+name]; !ex {
							bad = true
							c.Fail(rule, b.name+"#dropped:"+name, call.Pos(), "the error of tx.%s is discarded: a failed write goes unnoticed and the transaction commits a partial update", name)
						}
					}
				}
			case *ast.AssignStmt:
				if len(x.Rhs) == 1 {
					if call, ok := x.Rhs[0].(*ast.CallExpr); ok {
						if name, ok := isTxCall(call); ok {
							if id, ok := x.Lhs[len(x.Lhs)-1].(*ast.Ident); ok && id.Name == "_" {
								n++
								if _, ex := exempt[b.name+"."+name]; !ex {
									bad = true
									c.Fail(rule, b.name+"#dropped:"+name, call.Pos(), "the error of tx.%s is assigned to _: a failed write goes unnoticed and the transaction commits a partial update", name)
								}
							}
						}
					}
				}
			}
			return true
		})
		// (b) error found non-nil ⇒ non-nil return
		eng := &an.Engine{Prog: c.P, Info: info,
			TrackCall: func(call *ast.CallExpr, callee *types.Func) string {
				if name, ok := isTxCall(call); ok {
					return "tx." + name
				}
				return ""
			},
			Classify: func(a an.Atom) (string, bool) {
				if k, ok := an.ErrNilAtom(info, a); ok {
					switch m := an.LastCall(k); m {
					case "Put", "Delete", "Get", "List", "Exists", "Commit":
						// only calls on a transaction value
						return "txerr:" + m, true
					}
				}
				return "", false
			}}
		paths, err := eng.RunBody(b.ft, nil, b.body)
		if err != nil {
			c.Undecided(rule, b.name, b.pos, "%v", err)
			continue
		}
		for _, p := range paths {
			for _, l := range p.Lits {
				if !strings.HasPrefix(l.Name, "txerr:") || !l.Val {
					continue
				}
				n++
				m := strings.TrimPrefix(l.Name, "txerr:")
				if p.Exit == "return" && len(p.Rets) > 0 && p.Rets[len(p.Rets)-1] == "nil" {
					if _, ex := exempt[b.name+"."+m]; ex {
						continue
					}
					bad = true
					c.Fail(rule, b.name+"#swallowed:"+m, p.RetPos, "a failed tx.%s is answered with a nil error: the closure's caller commits the transaction although a step failed; path [%s]", m, p.Cond())
				}
			}
		}
		// (c) an error that is assigned must also be looked at: per path, every distinct tx call has its result tested or returned
		for _, p := range paths {
			calls := map[string]map[string]bool{}
			for _, e := range p.Events {
				if e.Kind == "call" && strings.HasPrefix(e.Name, "tx.") {
					m := strings.TrimPrefix(e.Name, "tx.")
					if calls[m] == nil {
						calls[m] = map[string]bool{}
					}
					calls[m][e.Recv+"("+strings.Join(e.Args, ",")+")"] = true
				}
			}
			checked := map[string]map[string]bool{}
			for _, l := range p.Lits {
				if strings.HasPrefix(l.Name, "txerr:") {
					m := strings.TrimPrefix(l.Name, "txerr:")
					if checked[m] == nil {
						checked[m] = map[string]bool{}
					}
					checked[m][strings.TrimSuffix(strings.TrimSuffix(l.Key, " == nil"), " != nil")] = true
				}
			}
			if os.Getenv("KAPDEBUG_TX") == b.name {
				fmt.Fprintf(os.Stderr, "TXDEBUG %s calls=%v checked=%v rets=%v cond=%s\n", b.name, calls, checked, p.Rets, p.Cond())
			}
			for m, set := range calls {
				returned := 0
				// a returned error counts once, and only when it is not one that this path already tested (returning the
				// error of an earlier, already checked call says nothing about the later ones)
				if len(p.Rets) > 0 && strings.Contains(p.Rets[len(p.Rets)-1], "."+m+"(") && !checked[m][p.Rets[len(p.Rets)-1]] {
					returned = 1
				}
				if len(set) > len(checked[m])+returned {
					if _, ex := exempt[b.name+"."+m]; ex {
						continue
					}
					bad = true
					c.Fail(rule, b.name+"#unchecked:"+m, p.RetPos, "on this path tx.%s is called %d time(s) with different arguments but its error is tested %d time(s): an error that is assigned and never looked at lets a failed step commit (the old index entry stays, the object is listed twice); path [%s]", m, len(set), len(checked[m])+returned, p.Cond())
				}
			}
		}
		if !bad {
			c.Ok(rule, b.name)
		}
	}
	return n
}
