#!/usr/bin/env bash
# Builds the checker from /verif sources only (offline) and renders the pkg-config stub.
set -euo pipefail
cd "$(dirname "$0")"
. ./env.sh
FLUXDIR=$(cd "$REPO" && go list -m -f '{{.Dir}}' github.com/influxdata/flux)
test -f "$FLUXDIR/libflux/include/influxdata/flux.h"
sed "s#@FLUXINC@#$FLUXDIR/libflux/include#" pc/flux.pc.in > pc/flux.pc
mkdir -p bin evidence
(cd kapcheck && go build -o ../bin/kapcheck ./cmd/kapcheck)
echo "setup ok: $(bin/kapcheck -version)"
